SPECIFICATION TraceSpec
CONSTANTS
  Ctxs <- TCtxs
  MaxSyms = 8
  MaxLen = 0
  EmitMod = 0
  EmitRes = 0
CHECK_DEADLOCK FALSE
