---- MODULE MC_C19_quick_c_long ----
EXTENDS CircuitSys
c_Dom == <<2, 2>>
c_KSet == {2}
c_MaxK == 8
c_MaxL == 3
c_MaxIn == 2
c_InKindSeq == <<"emb", "poly">>
c_InnerKinds == {"had", "kron", "sum"}
c_MaxAr == 2
c_FreeOrder == FALSE
c_MaxOuts == 1
c_MaxBases == 1
c_MaxOps == 1
c_OpSet == {"multiply"}
c_Scheme == 2
c_OnlySD == TRUE
c_PolyDeg == 1
c_DiffK == {1}
c_MaxDeg == 2
c_EvExp == 0
c_Invalid == FALSE
c_MaxHist == 6
c_RunActs == {"eval", "reload", "reset", "save", "update"}
c_NVer == 2
c_GradMod == 0
c_QueryOn == FALSE
c_J == 1
c_EmitOps == {0, 1}
c_EmitMod == 400
c_EmitRes == 0
c_EmitSmall == 0
c_EmitFilter == "all"
====
