SPECIFICATION Spec
CONSTANTS
  Dom = <<2, 2>>
  KSet = {1, 2}
  MaxL = 4
  MaxIn = 2
  InKindSeq = <<"emb">>
  InnerKinds = {"sum", "had", "kron"}
  MaxAr = 2
  MaxOuts = 2
  MaxOps = 0
  OpSet = {}
  Scheme = 1
  OnlySD = FALSE
  PolyDeg = 1
  DiffK = {1}
  J = 1
INVARIANT EmitInv
CHECK_DEADLOCK FALSE
