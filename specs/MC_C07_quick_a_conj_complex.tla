---- MODULE MC_C07_quick_a_conj_complex ----
EXTENDS CircuitSys
c_Dom == <<2, 2>>
c_KSet == {1, 2}
c_MaxK == 8
c_MaxL == 4
c_MaxIn == 2
c_InKindSeq == <<"emb", "poly">>
c_InnerKinds == {"had", "kron", "mix", "sum"}
c_MaxAr == 2
c_FreeOrder == FALSE
c_MaxOuts == 2
c_MaxBases == 1
c_MaxOps == 2
c_OpSet == {"conjugate"}
c_Scheme == 3
c_OnlySD == FALSE
c_PolyDeg == 1
c_DiffK == {1}
c_MaxDeg == 2
c_EvExp == 0
c_Invalid == FALSE
c_MaxHist == 0
c_RunActs == {"eval", "update"}
c_NVer == 2
c_GradMod == 0
c_QueryOn == FALSE
c_J == 1
c_EmitOps == {2}
c_EmitMod == 64
c_EmitRes == 0
c_EmitSmall == 2
c_EmitFilter == "all"
====
