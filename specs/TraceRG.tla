------------------------------- MODULE TraceRG -------------------------------
(* Direction B for region graphs (C16) and normalisation / template records    *)
(* that carry a region graph.  The file named by TRACE_FILE holds one JSON     *)
(* record per call of a construction algorithm on the real library:            *)
(*   tid, algo, nvars (the variables the graph must cover: 0..nvars-1),         *)
(*   regions  : sequence of scopes (sequences of variable ids)                 *)
(*   parts    : sequence of [scope, nparents, parent, children] where parent   *)
(*              and children index into regions (1-based)                      *)
(*   roots    : sequence of region indices,  sd: the library's flag            *)
(*   reload   : the same four fields read back after dump -> load              *)
(*   circuits : sequence of [K (requested output units), layers, outs] where   *)
(*              layers is a sequence of [kind in {"in","sum","prod"}, scope,   *)
(*              ins (1-based indices of earlier layers), units]                *)
(* A record is accepted iff the region graph is VALID by definition, its flag  *)
(* matches its partitions, dump/load preserved it, and every circuit built     *)
(* from it is smooth, decomposable, over exactly the variables, structured     *)
(* decomposable whenever the graph is, with the requested output units.        *)
EXTENDS Integers, Sequences, FiniteSets, TLC, Json, IOUtils

VARIABLES l
Trace == TLCGet(1)
Lines == Len(Trace)

ToSet(s) == {s[i] : i \in 1..Len(s)}
Vars(n) == 0..(n - 1)

(* ---------- validity of a region graph ---------- *)
RegionsOK(g) == \A r \in 1..Len(g.regions) : g.regions[r] # <<>> /\ Cardinality(ToSet(g.regions[r])) = Len(g.regions[r])
PartOK(g, p) ==
  LET sc == ToSet(p.scope)
      ch == p.children IN
  /\ p.nparents = 1                                                    \* exactly one parent region
  /\ p.parent \in 1..Len(g.regions) /\ ToSet(g.regions[p.parent]) = sc \* ... of the same scope
  /\ Len(ch) >= 1
  /\ \A i \in 1..Len(ch) : ch[i] \in 1..Len(g.regions) /\ g.regions[ch[i]] # <<>>
  /\ \A i, j \in 1..Len(ch) : i < j => ToSet(g.regions[ch[i]]) \cap ToSet(g.regions[ch[j]]) = {}
  /\ UNION {ToSet(g.regions[ch[i]]) : i \in 1..Len(ch)} = sc
RootsOK(g, n) ==
  /\ Len(g.roots) >= 1
  /\ \A i \in 1..Len(g.roots) : g.roots[i] \in 1..Len(g.regions)
  /\ \E i \in 1..Len(g.roots) : ToSet(g.regions[g.roots[i]]) = Vars(n)
ScopesInRange(g, n) == \A r \in 1..Len(g.regions) : ToSet(g.regions[r]) \subseteq Vars(n)

ChildScopes(g, p) == {ToSet(g.regions[p.children[i]]) : i \in 1..Len(p.children)}
SDdef(g) == \A i, j \in 1..Len(g.parts) :
              ToSet(g.parts[i].scope) = ToSet(g.parts[j].scope)
                => ChildScopes(g, g.parts[i]) = ChildScopes(g, g.parts[j])

(* ---------- dump / load ---------- *)
RegionBag(g) == [s \in {ToSet(g.regions[r]) : r \in 1..Len(g.regions)} |->
                   Cardinality({r \in 1..Len(g.regions) : ToSet(g.regions[r]) = s})]
PartKey(g, p) == <<ToSet(p.scope), ChildScopes(g, p)>>
PartBag(g) == [k \in {PartKey(g, g.parts[i]) : i \in 1..Len(g.parts)} |->
                 Cardinality({i \in 1..Len(g.parts) : PartKey(g, g.parts[i]) = k})]
RootBag(g) == {ToSet(g.regions[g.roots[i]]) : i \in 1..Len(g.roots)}
SameGraph(g, h) == /\ RegionBag(g) = RegionBag(h) /\ PartBag(g) = PartBag(h)
                   /\ RootBag(g) = RootBag(h) /\ g.sd = h.sd

(* ---------- circuits built from the graph ---------- *)
LSc(c, i) == ToSet(c.layers[i].scope)
WellFormed(c) == \A i \in 1..Len(c.layers) :
                   LET ly == c.layers[i] IN
                   /\ \A k \in 1..Len(ly.ins) : ly.ins[k] \in 1..(i - 1)
                   /\ (ly.kind = "in" <=> ly.ins = <<>>)
                   /\ (ly.kind # "in" => LSc(c, i) = UNION {LSc(c, ly.ins[k]) : k \in 1..Len(ly.ins)})
Smooth(c) == \A i \in 1..Len(c.layers) : c.layers[i].kind = "sum" =>
               \A k \in 1..Len(c.layers[i].ins) : LSc(c, c.layers[i].ins[k]) = LSc(c, i)
Decomp(c) == \A i \in 1..Len(c.layers) : c.layers[i].kind = "prod" =>
               \A j, k \in 1..Len(c.layers[i].ins) :
                  j < k => LSc(c, c.layers[i].ins[j]) \cap LSc(c, c.layers[i].ins[k]) = {}
Fact(c, i) == {LSc(c, c.layers[i].ins[k]) : k \in 1..Len(c.layers[i].ins)} \ {{}}
Prods(c) == {i \in 1..Len(c.layers) : c.layers[i].kind = "prod"}
SDc(c) == \A p, q \in Prods(c) :
            (LSc(c, p) = LSc(c, q) /\ Cardinality(Fact(c, p)) > 1 /\ Cardinality(Fact(c, q)) > 1)
              => Fact(c, p) = Fact(c, q)
CircuitClause(e, c) ==
  IF ~WellFormed(c) THEN 21
  ELSE IF ~Smooth(c) THEN 22
  ELSE IF ~Decomp(c) THEN 23
  ELSE IF UNION {LSc(c, c.outs[o]) : o \in 1..Len(c.outs)} # Vars(e.nvars) THEN 24
  ELSE IF \E o \in 1..Len(c.outs) : c.layers[c.outs[o]].units # c.K THEN 25
  ELSE IF e.sd /\ SDdef(e) /\ ~SDc(c) THEN 26
  ELSE 0

(* first failing clause of a record (0 = accepted) *)
Clause(e) ==
  IF e.kind = "invalid" THEN (IF e.ok THEN 0 ELSE 7)     \* invalid arguments must be rejected
  ELSE IF ~e.ok THEN 1                                   \* the call raised on valid arguments
  ELSE IF ~RegionsOK(e) \/ ~ScopesInRange(e, e.nvars) THEN 2
  ELSE IF \E i \in 1..Len(e.parts) : ~PartOK(e, e.parts[i]) THEN 3
  ELSE IF ~RootsOK(e, e.nvars) THEN 4
  ELSE IF e.sd # SDdef(e) THEN 5                         \* flag does not match the partitions
  ELSE IF ~SameGraph(e, e.reload) THEN 6                 \* dump -> load changed the graph
  ELSE LET cl == [k \in 1..Len(e.circuits) |-> CircuitClause(e, e.circuits[k])] IN
       IF \E k \in 1..Len(cl) : cl[k] # 0
       THEN cl[CHOOSE k \in 1..Len(cl) : cl[k] # 0 /\ \A j \in 1..(k - 1) : cl[j] = 0]
       ELSE 0

TInit == TLCSet(1, ndJsonDeserialize(IOEnv.TRACE_FILE)) /\ l = 1
ValidateOne ==
  /\ l <= Lines
  /\ LET e == Trace[l]
         cl == Clause(e) IN
     IF cl = 0 THEN PrintT(<<"ACCEPT", ToJson([tid |-> e.tid])>>)
     ELSE PrintT(<<"REJECT", ToJson([tid |-> e.tid, clause |-> cl])>>)
  /\ l' = l + 1
TraceSpec == TInit /\ [][ValidateOne]_l
==============================================================================
