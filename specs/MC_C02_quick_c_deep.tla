---- MODULE MC_C02_quick_c_deep ----
EXTENDS CircuitSys
c_Dom == <<2, 2, 2>>
c_KSet == {2}
c_MaxK == 8
c_MaxL == 5
c_MaxIn == 3
c_InKindSeq == <<"emb">>
c_InnerKinds == {"had", "kron", "mix", "sum"}
c_MaxAr == 3
c_FreeOrder == FALSE
c_MaxOuts == 1
c_MaxBases == 1
c_MaxOps == 0
c_OpSet == {}
c_Scheme == 6
c_OnlySD == TRUE
c_PolyDeg == 1
c_DiffK == {1}
c_MaxDeg == 2
c_EvExp == 0
c_Invalid == FALSE
c_MaxHist == 0
c_RunActs == {"eval", "update"}
c_NVer == 2
c_GradMod == 0
c_QueryOn == FALSE
c_J == 1
c_EmitOps == {0}
c_EmitMod == 61
c_EmitRes == 0
c_EmitSmall == 0
c_EmitFilter == "all"
====
