---- MODULE MC_smoke ----
EXTENDS CircuitSys
cDom == <<2, 2>>
cInKindSeq == <<"emb">>
====
