---- MODULE MC_C17_quick_b_singletons ----
EXTENDS InitSys
c_Shapes == {<<2, 3>>, <<3, 3>>}
c_MaxT == 1
c_MaxResets == 1
c_EmitMod == 1
c_EmitRes == 0
====
