---- MODULE MC_C14_quick_c_gaussian ----
EXTENDS ParamSys
c_Shapes == {<<2>>, <<3>>}
c_MaxLeaves == 4
c_MaxNodes == 5
c_LeafKinds == {"tensor"}
c_OpSet == {"gmean", "gvar"}
c_LogLeaves == FALSE
c_PosLeaves == TRUE
c_EmitMod == 2
c_EmitRes == 0
====
