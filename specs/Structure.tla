------------------------------ MODULE Structure ------------------------------
(* Tier R: structural properties of circuits by their set-based definitions.  *)
(* A circuit is (layers, S) where S is the set of layer indices reachable     *)
(* from its outputs.  Only scopes matter.                                     *)
EXTENDS Sem

RECURSIVE ReachFrom(_, _)
ReachFrom(layers, F) ==
  LET nxt == F \cup UNION {{layers[i].ins[h] : h \in 1..Len(layers[i].ins)} : i \in F}
  IN IF nxt = F THEN F ELSE ReachFrom(layers, nxt)
Reach(layers, outs) == ReachFrom(layers, {outs[o] : o \in 1..Len(outs)})

SumsOf(layers, S)  == {i \in S : layers[i].kind \in SumKinds}
ProdsOf(layers, S) == {i \in S : layers[i].kind \in ProdKinds}

SmoothOn(layers, S) ==
  \A i \in SumsOf(layers, S) : \A h \in 1..Len(layers[i].ins) :
     LScope(layers, layers[i].ins[h]) = LScope(layers, i)

DecompOn(layers, S) ==
  \A i \in ProdsOf(layers, S) : \A h1, h2 \in 1..Len(layers[i].ins) :
     h1 < h2 => LScope(layers, layers[i].ins[h1]) \cap LScope(layers, layers[i].ins[h2]) = {}

(* how a product splits its scope: the SET of non-empty input scopes *)
FactOf(layers, p) == {LScope(layers, layers[p].ins[h]) : h \in 1..Len(layers[p].ins)} \ {{}}

SameSplits(layers, P) ==
  \A p, q \in P :
     (LScope(layers, p) = LScope(layers, q)
        /\ Cardinality(FactOf(layers, p)) > 1 /\ Cardinality(FactOf(layers, q)) > 1)
     => FactOf(layers, p) = FactOf(layers, q)

SDOn(layers, S) == SmoothOn(layers, S) /\ DecompOn(layers, S) /\ SameSplits(layers, ProdsOf(layers, S))

CompatOn(layers, S1, S2) ==
  /\ SmoothOn(layers, S1) /\ DecompOn(layers, S1)
  /\ SmoothOn(layers, S2) /\ DecompOn(layers, S2)
  /\ SameSplits(layers, ProdsOf(layers, S1) \cup ProdsOf(layers, S2))

ScopeOn(layers, outs) == UNION {LScope(layers, outs[o]) : o \in 1..Len(outs)}
===============================================================================
