-------------------------------- MODULE InitSys --------------------------------
(* Tier R for parameter initialisation (C17).  A scenario is a sequence of        *)
(* symbolic tensors (the weights of sum layers that read the same input layer, so *)
(* that tensors of equal shape end up in one fold group when folding is on), each  *)
(* with its own symbolic initialiser, data type and learnable flag, followed by a  *)
(* number of reset_parameters() calls.  The expectation of every tensor does not   *)
(* depend on the other tensors, on folding or on the number of resets:             *)
(*   const   : every entry equals the constant (scalar broadcast, or the array)    *)
(*   dirichlet(axis): entries in (0,1), sums equal to one along the declared axis  *)
(*             of the SYMBOLIC tensor, NormAxis = axis (+ rank if negative)        *)
(*   uniform(a,b): entries within [a,b];  normal(m,s): sample moments              *)
(*   requires_grad = learnable.                                                    *)
EXTENDS Integers, Sequences, FiniteSets, TLC, Json

CONSTANTS Shapes,     \* admissible tensor shapes <<K, Kin>> (Kin = units of the shared input layer)
          MaxT,       \* max number of tensors
          MaxResets, EmitMod, EmitRes

VARIABLES tensors, resets, done
vars == <<tensors, resets, done>>

Specs(sh) ==
  {[kind |-> "const", c |-> c, axis |-> 0, a |-> 0, b |-> 0] : c \in {0, 2, 0 - 3}}
  \cup {[kind |-> "array", c |-> 0, axis |-> 0, a |-> 0, b |-> 0]}
  \cup {[kind |-> "dirichlet", c |-> 0, axis |-> ax, a |-> 0, b |-> 0] : ax \in (0 - Len(sh))..(Len(sh) - 1)}
  \cup {[kind |-> "uniform", c |-> 0, axis |-> 0, a |-> a, b |-> a + 2] : a \in {0 - 1, 3}}
  \cup {[kind |-> "normal", c |-> 0, axis |-> 0, a |-> m, b |-> 1] : m \in {0, 5}}

NormAxis(spec, sh) == IF spec.axis < 0 THEN spec.axis + Len(sh) ELSE spec.axis

Init == tensors = <<>> /\ resets = 0 /\ done = FALSE
AddTensor == /\ ~done /\ Len(tensors) < MaxT
             /\ \E sh \in Shapes : \E sp \in Specs(sh) : \E lrn \in BOOLEAN :
                  tensors' = Append(tensors, [shape |-> sh, spec |-> sp, learnable |-> lrn,
                                              sumaxis |-> NormAxis(sp, sh)])
             /\ UNCHANGED <<resets, done>>
Reset == ~done /\ tensors # <<>> /\ resets < MaxResets /\ resets' = resets + 1 /\ UNCHANGED <<tensors, done>>
Finish == ~done /\ tensors # <<>> /\ done' = TRUE /\ UNCHANGED <<tensors, resets>>
Next == AddTensor \/ Reset \/ Finish
Spec == Init /\ [][Next]_vars

RECURSIVE H(_)
H(n) == IF n = 0 THEN 5 + resets
        ELSE (Len(tensors[n].spec.kind) * 7 + tensors[n].spec.axis * 13 + tensors[n].spec.c * 3
              + tensors[n].shape[1] * 17 + tensors[n].shape[2] * 29 + (IF tensors[n].learnable THEN 1 ELSE 0)
              + tensors[n].spec.a * 11 + 131 * H(n - 1)) % 100003
EmitInv == (done /\ (H(Len(tensors)) % EmitMod) = (EmitRes % EmitMod))
             => PrintT(<<"VP", ToJson([tensors |-> tensors, resets |-> resets])>>)
TypeOK == done \in BOOLEAN
================================================================================
