---- MODULE MC_C17_quick_c_pairs_same_shape ----
EXTENDS InitSys
c_Shapes == {<<3, 2>>}
c_MaxT == 2
c_MaxResets == 1
c_EmitMod == 3
c_EmitRes == 0
====
