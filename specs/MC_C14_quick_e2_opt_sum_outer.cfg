SPECIFICATION Spec
CONSTANTS
  Shapes <- c_Shapes
  MaxLeaves <- c_MaxLeaves
  MaxNodes <- c_MaxNodes
  LeafKinds <- c_LeafKinds
  OpSet <- c_OpSet
  LogLeaves <- c_LogLeaves
  EmitMod <- c_EmitMod
  EmitRes <- c_EmitRes
  PosLeaves <- c_PosLeaves
INVARIANT TypeOK
INVARIANT EmitInv
CHECK_DEADLOCK FALSE
