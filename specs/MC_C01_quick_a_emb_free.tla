---- MODULE MC_C01_quick_a_emb_free ----
EXTENDS CircuitSys
c_Dom == <<2, 2>>
c_KSet == {1, 2}
c_MaxL == 4
c_MaxIn == 2
c_InKindSeq == <<"emb">>
c_InnerKinds == {"had", "kron", "mix", "sum"}
c_MaxAr == 2
c_MaxOuts == 2
c_MaxOps == 0
c_OpSet == {}
c_Scheme == 1
c_OnlySD == FALSE
c_PolyDeg == 1
c_DiffK == {1}
c_J == 1
c_EmitOps == {0}
c_EmitMod == 2
c_EmitRes == 0
====
