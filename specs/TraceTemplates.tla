---------------------------- MODULE TraceTemplates ----------------------------
(* Direction B for the model templates (C20): the documented formulas over      *)
(* integer factor tables, evaluated by TLC on records of real executions.       *)
(* A record holds: kind, shape (domain size per variable), the factor tables    *)
(* read from the symbolic circuit by their documented roles, and obs: the       *)
(* table the compiled circuit returned, indexed by the row-major rank of the    *)
(* index tuple / assignment (variable 0 most significant).                      *)
(*   cp      : A[j][x][r], w[r]              t[x] = SUM_r w[r] PROD_j A[j][x_j][r]      *)
(*   tucker  : A[j][x][r], G[flat(r1..rn)]   t[x] = SUM_r G[r] PROD_j A[j][x_j][r_j]    *)
(*   tt      : V1[x][r], Vin[i][x][r][k], Vn[x][r]   left-to-right contraction         *)
(*   hmm     : ord (variable per time step), E[t][z][x], T[t][z][z'], pi[z]              *)
(*             p(x) = SUM_z pi[z] beta_1[z], beta_t[z] = E_t[z][x_ord(t)] *             *)
(*                    SUM_z' T_t[z][z'] beta_(t+1)[z'],  beta_n[z] = E_n[z][x_ord(n)]   *)
(*             cats / want_cats: the categories of each variable's input layer and the  *)
(*             ones requested for that variable id                                     *)
(*   ff      : P[v][x]                       p(x) = PROD_v P[v][x_v]                    *)
(*   logic   : nodes (DAG of literals / conjunctions / disjunctions, deterministic and       *)
(*             decomposable by construction), root, mc = what integrate returned          *)
(*             value(x) = truth value of the formula, mc = number of models                *)
(*   rel     : a relation the specification demands of circuits with Gaussian inputs (real    *)
(*             arithmetic is outside TLC): product / marginal / conjugate, measured by the    *)
(*             driver in float64 (DESIGN.md section 4.3); the specification demands rel_ok    *)
(*   norm    : (C12) the booleans measured by the driver on a template built with        *)
(*             normalised parameterisations; the specification demands all of them       *)
EXTENDS Integers, Sequences, FiniteSets, TLC, Json, IOUtils

VARIABLES l
Trace == TLCGet(1)
Lines == Len(Trace)

RECURSIVE Size(_)
Size(sh) == IF sh = <<>> THEN 1 ELSE Head(sh) * Size(Tail(sh))
RECURSIVE Unravel(_, _)
Unravel(i, sh) == IF sh = <<>> THEN <<>>
                  ELSE LET rest == Size(Tail(sh)) IN <<i \div rest>> \o Unravel(i % rest, Tail(sh))
RECURSIVE SumTo(_, _)
SumTo(f, n) == IF n = 0 THEN 0 ELSE f[n] + SumTo(f, n - 1)
RECURSIVE ProdTo(_, _)
ProdTo(f, n) == IF n = 0 THEN 1 ELSE f[n] * ProdTo(f, n - 1)
RECURSIVE Pow(_, _)
Pow(b, e) == IF e = 0 THEN 1 ELSE b * Pow(b, e - 1)

CPVal(e, x) ==
  LET n == Len(e.shape) R == Len(e.w) IN
  SumTo([r \in 1..R |-> e.w[r] * ProdTo([j \in 1..n |-> e.A[j][x[j] + 1][r]], n)], R)

TuckerVal(e, x) ==
  LET n == Len(e.shape) R == e.rank IN
  SumTo([g \in 1..Pow(R, n) |->
           LET rs == Unravel(g - 1, [j \in 1..n |-> R]) IN
           e.G[g] * ProdTo([j \in 1..n |-> e.A[j][x[j] + 1][rs[j] + 1]], n)], Pow(R, n))

RECURSIVE TTVec(_, _, _)
TTVec(e, x, i) ==        \* the vector after contracting variables 1..i (i <= n-1)
  IF i = 1 THEN e.V1[x[1] + 1]
  ELSE LET v == TTVec(e, x, i - 1)
           R == e.rank IN
       [k \in 1..R |-> SumTo([r \in 1..R |-> v[r] * e.Vin[i - 1][x[i] + 1][r][k]], R)]
TTVal(e, x) ==
  LET n == Len(e.shape) R == e.rank IN
  IF n = 1 THEN SumTo(e.V1[x[1] + 1], Len(e.V1[x[1] + 1]))
  ELSE LET v == TTVec(e, x, n - 1) IN SumTo([r \in 1..R |-> v[r] * e.Vn[x[n] + 1][r]], R)

RECURSIVE Beta(_, _, _)
Beta(e, x, t) ==
  LET n == Len(e.ord) K == e.K IN
  IF t = n THEN [z \in 1..K |-> e.E[t][z][x[e.ord[t] + 1] + 1]]
  ELSE LET b == Beta(e, x, t + 1) IN
       [z \in 1..K |-> e.E[t][z][x[e.ord[t] + 1] + 1]
                        * SumTo([y \in 1..K |-> e.T[t][z][y] * b[y]], K)]
HMMVal(e, x) == LET b == Beta(e, x, 1) IN SumTo([z \in 1..e.K |-> e.pi[z] * b[z]], e.K)

FFVal(e, x) == ProdTo([v \in 1..Len(e.shape) |-> e.P[v][x[v] + 1]], Len(e.shape))

(* propositional formula given as a DAG: nodes[i] = [t in {"lit","nlit","top","bot","and","or"}, v, ins] *)
RECURSIVE Holds(_, _, _)
Holds(e, x, i) ==
  LET n == e.nodes[i] IN
  CASE n.t = "lit" -> x[n.v + 1] = 1
    [] n.t = "nlit" -> x[n.v + 1] = 0
    [] n.t = "top" -> TRUE
    [] n.t = "bot" -> FALSE
    [] n.t = "and" -> \A k \in 1..Len(n.ins) : Holds(e, x, n.ins[k])
    [] n.t = "or" -> \E k \in 1..Len(n.ins) : Holds(e, x, n.ins[k])
LogicVal(e, x) == IF Holds(e, x, e.root) THEN 1 ELSE 0
ModelCount(e) == SumTo([q \in 1..Size(e.shape) |-> LogicVal(e, Unravel(q - 1, e.shape))], Size(e.shape))

Formula(e, x) ==
  CASE e.kind = "cp" -> CPVal(e, x)
    [] e.kind = "tucker" -> TuckerVal(e, x)
    [] e.kind = "tt" -> TTVal(e, x)
    [] e.kind = "hmm" -> HMMVal(e, x)
    [] e.kind = "ff" -> FFVal(e, x)
    [] e.kind = "logic" -> LogicVal(e, x)

Clause(e) ==
  IF ~e.ok THEN 1
  ELSE IF e.kind = "rel" THEN (IF e.rel_ok THEN 0 ELSE 20)   \* a measured relation (Gaussian inputs)
  ELSE IF e.kind = "norm" THEN        \* C12: a normalised parameterisation gives a distribution
    (IF ~e.z_ok THEN 11               \* partition function (compiled symbolic integrate) = 1
     ELSE IF ~e.brute_ok THEN 12      \* brute-force sum over all assignments = 1
     ELSE IF ~e.nonneg_ok THEN 13     \* every value is non-negative
     ELSE IF ~e.finite_ok THEN 14     \* log-space values of in-support inputs are finite
     ELSE IF ~e.step_ok THEN 15       \* ... still after training steps on the unconstrained parameters
     ELSE IF ~e.reset_ok THEN 16      \* ... and after re-initialisation
     ELSE 0)
  ELSE IF Len(e.obs) # Size(e.shape) THEN 2
  ELSE IF e.kind = "hmm" /\ e.cats # e.want_cats THEN 4          \* per-variable arguments
  ELSE IF e.kind = "logic" /\ e.mc # ModelCount(e) THEN 5        \* integrate = model count
  ELSE IF \E q \in 1..Size(e.shape) : e.obs[q] # Formula(e, Unravel(q - 1, e.shape)) THEN 3
  ELSE 0

TInit == TLCSet(1, ndJsonDeserialize(IOEnv.TRACE_FILE)) /\ l = 1
ValidateOne ==
  /\ l <= Lines
  /\ LET e == Trace[l]
         cl == Clause(e) IN
     IF cl = 0 THEN PrintT(<<"ACCEPT", ToJson([tid |-> e.tid])>>)
     ELSE PrintT(<<"REJECT", ToJson([tid |-> e.tid, clause |-> cl])>>)
  /\ l' = l + 1
TraceSpec == TInit /\ [][ValidateOne]_l
==============================================================================
