---- MODULE MC_C14_quick_b3_comp_misc ----
EXTENDS ParamSys
c_Shapes == {<<2, 2>>}
c_MaxLeaves == 2
c_MaxNodes == 4
c_OpSet == {"clamp", "conj", "mix", "polydiff", "polyprod", "rprod", "sigmoid", "softplus", "ssigmoid"}
c_LogLeaves == TRUE
c_EmitMod == 100
c_EmitRes == 0
c_LeafKinds == {"const", "ref", "tensor"}
c_PosLeaves == FALSE
====
