------------------------------ MODULE CircuitSys ------------------------------
(* The top-level state machine whose behaviours are replayed into cirkit.      *)
(*                                                                            *)
(*  phase "build":  AddInput / AddInner   build a pool of symbolic layers     *)
(*                  Finish                declare one or two base circuits    *)
(*                                        (Circuit(...) is constructed)       *)
(*  phase "ops":    ApplyOp               apply a symbolic operator to pool   *)
(*                                        entries (valid or, if Invalid,      *)
(*                                        invalid arguments)                  *)
(*                  StartRun              compile everything in one context   *)
(*  phase "run":    Update / Reset / Save / Load / Reload / Eval              *)
(*                                        a history of in-place parameter     *)
(*                                        changes interleaved with evaluations*)
(*                                                                            *)
(* Every reachable state describes a pipeline (a pool of circuits) and a       *)
(* parameter store; the Expect* operators give, from Tier R only (Sem.tla,     *)
(* Structure.tla), what every circuit of the pool must evaluate to once        *)
(* compiled -- for any flags, any semiring -- and how every operator call must *)
(* end.                                                                       *)
EXTENDS Structure, TLC, Json

CONSTANTS
  Dom,        \* sequence of domain sizes, one per model variable
  KSet,       \* admissible unit counts (Kronecker layers have kin^arity units, bounded by MaxK)
  MaxK,
  MaxL,       \* max number of layers
  MaxIn,      \* max number of input layers
  InKindSeq,  \* sequence of admissible input kinds (order = canonical order)
  InnerKinds, \* subset of {"sum","mix","had","kron"}
  MaxAr,      \* max arity
  FreeOrder,  \* TRUE: sum / Hadamard layers list their inputs in any order (Kronecker layers always do)
  MaxOuts,    \* max number of outputs per base circuit
  MaxBases,   \* 1 or 2 base circuits (disjoint layer sets)
  MaxOps,     \* max number of operator applications
  OpSet,      \* admissible operators
  Scheme,     \* valuation scheme id
  OnlySD,     \* TRUE: only smooth and decomposable base circuits are finished
  PolyDeg,    \* degree of polynomial inputs
  DiffK,      \* set of differentiation orders
  MaxDeg,     \* max number of base-circuit factors in a product (bounds magnitudes: 32-bit integers)
  EvExp,      \* evidence values are obs / 2^EvExp (1: half-integer points for polynomial inputs)
  Invalid,    \* TRUE: ApplyOp also generates calls that must be refused
  MaxHist,    \* length of run-phase histories (0 = no run phase)
  RunActs,    \* subset of {"update","reset","save","load","reload","eval"}
  NVer,       \* number of store versions an Update cycles through
  GradMod,    \* 0 = no gradient tables; n>0: emit d/dtheta for parameter entries with hash % n = 0
  QueryOn,    \* TRUE: emit the marginal tables of base circuit 1 for every variable subset
  EmitOps,    \* emit a behaviour only at states whose number of applied operators is in this set
  EmitMod,    \* ... and whose structural hash is EmitRes modulo EmitMod (1 = emit all)
  EmitRes,
  EmitSmall,  \* ... or whose number of layers is at most EmitSmall (small circuits are all emitted)
  EmitFilter  \* "all", or "nonsd": only states with a smooth, decomposable, NOT structured-
              \* decomposable base circuit (rare among all circuits: emitted without sampling);
              \* "ar3": only circuits with a product layer of arity >= 3 (hash-sampled)

VARIABLES layers, bases, ops, phase, ver, saved, hist
vars == <<layers, bases, ops, phase, ver, saved, hist>>

V == Len(Dom)
NL == Len(layers)

KindIdx(k) == CHOOSE i \in 1..Len(InKindSeq) : InKindSeq[i] = k
InKey(l) == l.var * 1000 + KindIdx(l.kind) * 10 + l.K

KindHash(k) == CASE k = "emb" -> 1 [] k = "catp" -> 2 [] k = "catl" -> 3 [] k = "poly" -> 4
                 [] k = "const" -> 5 [] k = "clog" -> 6 [] k = "binom" -> 7 [] k = "sum" -> 8
                 [] k = "mix" -> 9 [] k = "had" -> 10 [] k = "kron" -> 11 [] OTHER -> 12
Layer(kind, var, K, ins) == [kind |-> kind, var |-> var, K |-> K, ins |-> ins]

(* ---------- sequences ---------- *)
RECURSIVE AllSeqs(_, _)          \* all sequences of length n over 1..m
AllSeqs(n, m) == IF n = 0 THEN {<<>>}
                 ELSE {Append(s, j) : s \in AllSeqs(n - 1, m), j \in 1..m}
IsInc(s) == \A a, b \in 1..Len(s) : a < b => s[a] < s[b]
IsInj(s) == \A a, b \in 1..Len(s) : a < b => s[a] # s[b]
Last(s) == s[Len(s)]
SetToSeqAny(S) == LET RECURSIVE F(_)
                      F(T) == IF T = {} THEN <<>>
                              ELSE LET m == CHOOSE y \in T : TRUE IN <<m>> \o F(T \ {m})
                  IN F(S)
SetMax(S) == CHOOSE m \in S : \A y \in S : y <= m

(* ---------- build ---------- *)
Init == /\ layers = <<>> /\ bases = <<>> /\ ops = <<>> /\ phase = "build"
        /\ ver = <<>> /\ saved = <<>> /\ hist = <<>>

AddInput ==
  /\ phase = "build"
  /\ NL < MaxIn
  /\ \A i \in 1..NL : layers[i].kind \in InputKinds
  /\ \E kind \in {InKindSeq[i] : i \in 1..Len(InKindSeq)}, v \in 1..V, K \in KSet :
       LET l == Layer(kind, IF kind \in {"const", "clog"} THEN 0 ELSE v, K, <<>>) IN
       /\ (kind \in {"const", "clog"} => v = 1)
       /\ (NL > 0 => InKey(layers[NL]) <= InKey(l))
       /\ layers' = Append(layers, l)
  /\ UNCHANGED <<bases, ops, phase, ver, saved, hist>>

AddInner ==
  /\ phase = "build"
  /\ NL >= 1 /\ NL < MaxL
  /\ \E kind \in InnerKinds, n \in 1..MaxAr :
     \E ins \in AllSeqs(n, NL) :
       LET kin == layers[ins[1]].K IN
       /\ \A h \in 1..n : layers[ins[h]].K = kin
       /\ (kind \in {"sum", "mix", "had"} => IF FreeOrder THEN IsInj(ins) ELSE IsInc(ins))
       /\ (kind = "kron" => IsInj(ins))
       /\ (kind \in ProdKinds => n >= 2)
       /\ (kind = "mix" => n >= 2)
       /\ \E K \in (IF kind = "kron" THEN {IPow(kin, n)} ELSE KSet) :
            /\ K <= MaxK
            /\ (kind \in {"had", "mix"} => K = kin)
            /\ layers' = Append(layers, Layer(kind, 0, K, ins))
  /\ UNCHANGED <<bases, ops, phase, ver, saved, hist>>

OutChoices ==
  UNION {{os \in AllSeqs(n, NL) :
            /\ IsInj(os)
            /\ \A o \in 1..n : layers[os[o]].K = layers[os[1]].K}   \* outputs are stacked: equal units
         : n \in 1..MaxOuts}

Finish ==
  /\ phase = "build"
  /\ NL >= 1
  /\ (OnlySD => SmoothOn(layers, 1..NL) /\ DecompOn(layers, 1..NL))
  /\ \/ \E os \in OutChoices :
          /\ Reach(layers, os) = 1..NL                              \* every layer is used
          /\ bases' = <<os>>
     \/ /\ MaxBases >= 2
        /\ \E os1, os2 \in OutChoices :
             LET r1 == Reach(layers, os1)
                 r2 == Reach(layers, os2) IN
             /\ r1 \cap r2 = {}
             /\ r1 \cup r2 = 1..NL
             /\ NL \in r1                                           \* canonical order of the pair
             /\ bases' = <<os1, os2>>
  /\ phase' = "ops"
  /\ ver' = [i \in 1..NL |-> 1]
  /\ UNCHANGED <<layers, ops, saved, hist>>

(* ---------- the store ---------- *)
GenVal(l, u, j) ==
  CASE Scheme = 1 -> <<DInt(1 + ((2 * l + 3 * u + 5 * j) % 4)), DZero>>
    [] Scheme = 2 -> <<DNorm(<<((l + 2 * u + 3 * j) % 7) - 3, (l + u + j) % 2>>), DZero>>
    [] Scheme = 3 -> <<DInt(((l + 2 * u + 3 * j) % 5) - 2), DInt(((2 * l + u + j) % 3) - 1)>>
    [] Scheme \in {4, 5} -> <<DInt(1 + ((2 * l + 3 * u + 5 * j) % 4)), DZero>>
    [] Scheme = 7 -> <<DInt((l + 2 * u + 3 * j) % 4), DZero>>             \* non-negative with exact zeros
    [] Scheme = 6 -> <<DInt(1 + ((l + 2 * u + 3 * j) % 3)), DZero>>     \* small positive (deep products)
PosVal(l, u, j) == <<DInt(1 + ((2 * l + 3 * u + 5 * j) % 4)), DZero>>
(* a normalised dyadic row of length n: 1/2, 1/4, ..., 2^-(n-1), 2^-(n-1), rotated by r *)
NormRow(r, n) == [j \in 1..n |->
                    LET p == ((j - 1 + r) % n) + 1 IN
                    IF n = 1 THEN <<DOne, DZero>>
                    ELSE IF p < n THEN <<<<1, p>>, DZero>> ELSE <<<<1, n - 1>>, DZero>>]
OneHotRow(r, n) == [j \in 1..n |-> IF ((j - 1 + r) % n) = 0 THEN <<DOne, DZero>> ELSE <<DZero, DZero>>]
ProbRow(r, n) == IF Scheme = 5 THEN OneHotRow(r, n) ELSE NormRow(r, n)
Normalised == Scheme \in {4, 5}

(* the matrix of parameterised layer i in store version v (LINEAR domain) *)
LayerStore(ls, i, v) ==
  LET l == ls[i]
      lv == i + 2 * (v - 1)
      G(u, j) == GenVal(lv, u + (v - 1), j)
  IN
  CASE l.kind = "emb"   -> [u \in 1..l.K |-> IF Normalised THEN ProbRow(lv + u, Dom[l.var])
                                             ELSE [j \in 1..Dom[l.var] |-> G(u, j)]]
    [] l.kind = "catp"  -> [u \in 1..l.K |-> ProbRow(lv + u, Dom[l.var])]
    [] l.kind = "catl"  -> [u \in 1..l.K |-> IF Normalised THEN NormRow(lv + u, Dom[l.var])
                                             ELSE [j \in 1..Dom[l.var] |-> PosVal(lv, u, j)]]
    [] l.kind = "poly"  -> [u \in 1..l.K |-> [j \in 1..(PolyDeg + 1) |-> G(u, j)]]
    [] l.kind = "const" -> [u \in 1..l.K |-> <<G(u, 1)>>]
    [] l.kind = "clog"  -> [u \in 1..l.K |-> <<PosVal(lv, u, 1)>>]
    [] l.kind = "sum"   -> LET n == Len(l.ins) * ls[l.ins[1]].K IN
                           [u \in 1..l.K |-> IF Normalised THEN ProbRow(lv + u, n)
                                             ELSE [j \in 1..n |-> G(u, j)]]
    [] l.kind = "mix"   -> [u \in 1..l.K |-> IF Normalised THEN ProbRow(lv + u, Len(l.ins))
                                             ELSE [j \in 1..Len(l.ins) |-> G(u, j)]]
    [] OTHER -> <<>>

StoreAt(vf) == [i \in 1..NL |-> LayerStore(layers, i, vf[i])]
NoTh == <<0, 0, 0>>

(* ---------- the pool ---------- *)
NB == Len(bases)
BaseTerm(b, vf, th) == [op |-> "base", c |-> [layers |-> layers, outs |-> bases[b]],
                        st |-> StoreAt(vf), th |-> th]
PoolAt(vf, th) == [b \in 1..NB |-> BaseTerm(b, vf, th)] \o ops
Pool == PoolAt(ver, NoTh)
NP == NB + Len(ops)

RECURSIVE Mentions(_, _)      \* does term i contain operator o anywhere below it
Mentions(i, o) ==
  LET t == Pool[i] IN
  \/ t.op = o
  \/ (t.op \in {"integrate", "evidence", "conjugate", "differentiate"} /\ Mentions(t.a, o))
  \/ (t.op = "multiply" /\ (Mentions(t.a, o) \/ Mentions(t.b, o)))
  \/ (t.op = "concat" /\ \E n \in 1..Len(t.args) : Mentions(t.args[n], o))

RECURSIVE BasesOf(_)          \* the base circuits a term is built from
BasesOf(i) ==
  LET t == Pool[i] IN
  CASE t.op = "base" -> {i}
    [] t.op \in {"integrate", "evidence", "conjugate", "differentiate"} -> BasesOf(t.a)
    [] t.op = "multiply" -> BasesOf(t.a) \cup BasesOf(t.b)
    [] t.op = "concat" -> UNION {BasesOf(t.args[n]) : n \in 1..Len(t.args)}

BaseReach(b) == Reach(layers, bases[b])
InputKindsOf(i) == {layers[j].kind : j \in {n \in UNION {BaseReach(b) : b \in BasesOf(i)} :
                                                layers[n].kind \in InputKinds}}
InputKindsOn(i, Z) == {layers[j].kind : j \in {n \in UNION {BaseReach(b) : b \in BasesOf(i)} :
                                                  layers[n].kind \in InputKinds /\ layers[n].var \in Z}}

(* structure of a pool entry: base circuits by definition; results of operators are      *)
(* smooth and decomposable by the operators' contract (checked on the code by C09)       *)
SmoothDecomp(i) == Pool[i].op = "base" => (SmoothOn(layers, BaseReach(i)) /\ DecompOn(layers, BaseReach(i)))

Subsets1(S) == (SUBSET S) \ {{}}
IntegrableKinds == {"emb", "catp", "catl", "binom"}

DiffEvaluable(t) ==
  /\ SmoothDecomp(t.a) /\ t.k > 0
  /\ InputKindsOf(t.a) \subseteq {"poly"}
  /\ ~Mentions(t.a, "differentiate") /\ ~Mentions(t.a, "integrate")

(* outcome class of an operator call, from the documented contract:                      *)
(*   "ok"      must return                 "may"    returns or refuses                  *)
(*   "struct"  must raise StructuralPropertyError                                        *)
(*   "value"   must raise (invalid argument)      "raise"  must raise (any error)        *)
PreOf(t) ==
  CASE t.op = "integrate" ->
         LET bad == (t.Z = {}) \/ ~(t.Z \subseteq TermScope(Pool, t.a)) IN
         IF ~SmoothDecomp(t.a) THEN (IF bad THEN "raise" ELSE "struct")
         ELSE IF bad THEN "value"
         ELSE IF InputKindsOn(t.a, t.Z) \subseteq IntegrableKinds /\ ~Mentions(t.a, "differentiate")
              THEN "ok" ELSE "may"
    [] t.op = "differentiate" ->
         IF ~SmoothDecomp(t.a) THEN (IF t.k <= 0 THEN "raise" ELSE "struct")
         ELSE IF t.k <= 0 THEN "value"
         ELSE IF DiffEvaluable(t) /\ ~Mentions(t.a, "evidence") THEN "ok" ELSE "may"
    [] t.op = "multiply" ->
         IF Pool[t.a].op = "base" /\ Pool[t.b].op = "base"
            /\ TermScope(Pool, t.a) = TermScope(Pool, t.b)
            /\ ~CompatOn(layers, BaseReach(t.a), BaseReach(t.b))
         THEN "raise" ELSE "may"
    [] t.op = "evidence" ->
         IF DOMAIN t.obs = {} \/ ~(DOMAIN t.obs \subseteq TermScope(Pool, t.a)) THEN "value"
         ELSE IF Mentions(t.a, "differentiate") THEN "may" ELSE "ok"
    [] t.op = "conjugate" ->      \* constant / evidence layers need not have a conjugation rule
         IF Mentions(t.a, "integrate") \/ Mentions(t.a, "evidence") THEN "may" ELSE "ok"
    [] t.op = "concat" -> "may"

(* is the denotation of the term computable by Sem (and meaningful)? *)
Evaluable(t) ==
  CASE t.op = "integrate" -> PreOf(t) = "ok"
    [] t.op = "differentiate" -> DiffEvaluable(t)
    [] t.op = "multiply" -> TermScope(Pool, t.a) = TermScope(Pool, t.b) /\ PreOf(t) = "may"
    [] t.op = "evidence" -> PreOf(t) \in {"ok", "may"}
    [] OTHER -> TRUE

Candidates ==
  UNION {
    (IF "integrate" \in OpSet
     THEN {[op |-> "integrate", a |-> a, Z |-> Z] :
             Z \in (IF Invalid THEN SUBSET (1..V) ELSE Subsets1(TermScope(Pool, a)))}
     ELSE {})
    \cup
    (IF "multiply" \in OpSet
     THEN {[op |-> "multiply", a |-> a, b |-> b] : b \in 1..NP}
     ELSE {})
    \cup
    (IF "evidence" \in OpSet
     THEN UNION {{[op |-> "evidence", a |-> a, obs |-> obs, ed |-> EvExp] :
                    obs \in {f \in [Z -> 0..2] : \A v \in Z : f[v] < Dom[v]}}
                 : Z \in (IF Invalid THEN SUBSET (1..V) ELSE Subsets1(TermScope(Pool, a)))}
     ELSE {})
    \cup
    (IF "conjugate" \in OpSet THEN {[op |-> "conjugate", a |-> a]} ELSE {})
    \cup
    (IF "concat" \in OpSet
     THEN {[op |-> "concat", args |-> <<a, b>>] : b \in 1..NP}
     ELSE {})
    \cup
    (IF "differentiate" \in OpSet
     THEN {[op |-> "differentiate", a |-> a, k |-> k] : k \in DiffK}
     ELSE {})
    : a \in 1..NP}

RECURSIVE OutK(_)             \* number of units of the outputs of a pool entry
OutK(i) ==
  LET t == Pool[i] IN
  CASE t.op = "base" -> layers[bases[i][1]].K
    [] t.op \in {"integrate", "evidence", "conjugate", "differentiate"} -> OutK(t.a)
    [] t.op = "multiply" -> OutK(t.a) * OutK(t.b)
    [] t.op = "concat" -> OutK(t.args[1])

RECURSIVE Degree(_)           \* number of base-circuit factors multiplied together in a pool entry
Degree(i) ==
  LET t == Pool[i] IN
  CASE t.op = "base" -> 1
    [] t.op \in {"integrate", "evidence", "conjugate", "differentiate"} -> Degree(t.a)
    [] t.op = "multiply" -> Degree(t.a) + Degree(t.b)
    [] t.op = "concat" -> SetMax({Degree(t.args[n]) : n \in 1..Len(t.args)})

Operands(t) == CASE t.op \in {"multiply"} -> {t.a, t.b}
                 [] t.op = "concat" -> {t.args[n] : n \in 1..Len(t.args)}
                 [] OTHER -> {t.a}
Returned(i) == Pool[i].op = "base" \/ Evaluable(Pool[i])

ApplyOp ==
  /\ phase = "ops"
  /\ Len(ops) < MaxOps
  /\ \E t \in Candidates :
       /\ \A i \in Operands(t) : Returned(i)           \* operands are circuits that exist
       /\ (Invalid \/ Evaluable(t))
       /\ (t.op = "multiply" => Degree(t.a) + Degree(t.b) <= MaxDeg)
       /\ (t.op = "concat" => \A i \in Operands(t) : ~Mentions(i, "differentiate")
                                                         /\ OutK(i) = OutK(t.args[1]))
       /\ ops' = Append(ops, t)
  /\ UNCHANGED <<layers, bases, phase, ver, saved, hist>>

(* ---------- run phase ---------- *)
ParamLayers == {i \in 1..NL : layers[i].kind \notin ProdKinds}

StartRun ==
  /\ phase = "ops" /\ MaxHist > 0
  /\ Len(ops) \in EmitOps
  /\ phase' = "run"
  /\ UNCHANGED <<layers, bases, ops, ver, saved, hist>>

Step(a) == hist' = Append(hist, a)

Update ==
  /\ "update" \in RunActs
  /\ \E i \in ParamLayers :
       LET nv == (ver[i] % NVer) + 1 IN
       /\ ver' = [ver EXCEPT ![i] = nv]
       /\ Step([a |-> "update", i |-> i, v |-> nv])
  /\ UNCHANGED saved
Reset ==
  /\ "reset" \in RunActs
  /\ ver # [i \in 1..NL |-> 1]
  /\ ver' = [i \in 1..NL |-> 1]
  /\ Step([a |-> "reset"])
  /\ UNCHANGED saved
Save ==
  /\ "save" \in RunActs
  /\ saved # ver
  /\ saved' = ver
  /\ Step([a |-> "save"])
  /\ UNCHANGED ver
Load ==
  /\ "load" \in RunActs
  /\ saved # <<>> /\ saved # ver
  /\ ver' = saved
  /\ Step([a |-> "load"])
  /\ UNCHANGED saved
Reload ==          \* fresh context, fresh (random) values, then load_state_dict(saved)
  /\ "reload" \in RunActs
  /\ saved # <<>>
  /\ ver' = saved
  /\ Step([a |-> "reload"])
  /\ UNCHANGED saved
Eval ==
  /\ "eval" \in RunActs
  /\ (IF hist = <<>> THEN TRUE ELSE Last(hist).a # "eval")
  /\ Step([a |-> "eval", ver |-> ver])
  /\ UNCHANGED <<ver, saved>>

Run ==
  /\ phase = "run"
  /\ Len(hist) < MaxHist
  /\ (Update \/ Reset \/ Save \/ Load \/ Reload \/ Eval)
  /\ UNCHANGED <<layers, bases, ops, phase>>

Next == AddInput \/ AddInner \/ Finish \/ ApplyOp \/ StartRun \/ Run
Spec == Init /\ [][Next]_vars

(* ---------- expectations (Tier R) ---------- *)
AssignSeq == \* assignments in lexicographic order, variable 1 most significant
  LET RECURSIVE F(_)
      F(n) == IF n = 0 THEN <<<<>>>>
              ELSE LET prev == F(n - 1) IN
                   [q \in 1..(Len(prev) * Dom[n]) |->
                      Append(prev[((q - 1) \div Dom[n]) + 1], (q - 1) % Dom[n])]
  IN F(V)

(* component c of the value of pool entry i (1 = value, 2 = d/dtheta) at every assignment *)
TableOf(pool, i, c) ==
  LET as == AssignSeq IN
  [q \in 1..Len(as) |->
     LET d == DenTerm(pool, Dom, i, as[q], XN(as[q]))
     IN [o \in 1..Len(d) |-> [u \in 1..Len(d[o]) |-> d[o][u][c]]]]

ExpectOf(pool, i) ==
  LET t == pool[i] IN
  IF t.op # "base" /\ ~Evaluable(t)
  THEN [pre |-> PreOf(t)]
  ELSE LET sc == OutScopes(pool, i) IN
       [pre |-> IF t.op = "base" THEN "ok" ELSE PreOf(t),
        scope |-> SetToSeq(TermScope(pool, i)),
        nouts |-> Len(sc),
        table |-> TableOf(pool, i, 1)]

StructOf(i) ==
  LET t == Pool[i] IN
  IF t.op = "base"
  THEN [pre |-> "ok", scope |-> SetToSeq(TermScope(Pool, i)), nouts |-> Len(bases[i]),
        smooth |-> SmoothOn(layers, BaseReach(i)), decomp |-> DecompOn(layers, BaseReach(i)),
        sd |-> SDOn(layers, BaseReach(i))]
  ELSE IF \A j \in Operands(t) : Returned(j)
       THEN (IF PreOf(t) \in {"ok", "may"} /\ (t.op \notin {"multiply"} \/ TermScope(Pool, t.a) = TermScope(Pool, t.b))
             THEN [pre |-> PreOf(t), scope |-> SetToSeq(TermScope(Pool, i)), nouts |-> Len(OutScopes(Pool, i))]
             ELSE [pre |-> PreOf(t)])
       ELSE [pre |-> "skip"]

OpJson(t) ==
  CASE t.op = "integrate" -> [op |-> t.op, a |-> t.a, Z |-> SetToSeq(t.Z)]
    [] t.op = "evidence" -> [op |-> t.op, a |-> t.a, ed |-> t.ed, vars |-> SetToSeq(DOMAIN t.obs),
                             vals |-> [n \in 1..Cardinality(DOMAIN t.obs) |-> t.obs[SetToSeq(DOMAIN t.obs)[n]]]]
    [] OTHER -> t

RECURSIVE SeqSum(_, _)
SeqSum(s, n) == IF n = 0 THEN 0 ELSE s[n] * n + SeqSum(s, n - 1)
StructHash ==
  LET RECURSIVE F(_)
      F(n) == IF n = 0 THEN 0
              ELSE (n * (KindHash(layers[n].kind) + 3 * layers[n].K + 7 * layers[n].var
                         + 11 * SeqSum(layers[n].ins, Len(layers[n].ins))) + F(n - 1)) % 100003
      RECURSIVE B(_)
      B(n) == IF n = 0 THEN 0 ELSE (13 * n * SeqSum(bases[n], Len(bases[n])) + B(n - 1)) % 100003
      RECURSIVE H(_)
      H(n) == IF n = 0 THEN 0
              ELSE ((IF hist[n].a = "update" THEN 3 + hist[n].i
                     ELSE IF hist[n].a = "eval" THEN 1 ELSE IF hist[n].a = "reset" THEN 2
                     ELSE IF hist[n].a = "save" THEN 17 ELSE IF hist[n].a = "load" THEN 23 ELSE 29) * n
                    + 31 * H(n - 1)) % 100003
      SetCode(S) == LET RECURSIVE G(_) G(v) == IF v = 0 THEN 0 ELSE (IF v \in S THEN IPow(2, v - 1) ELSE 0) + G(v - 1)
                    IN G(V)
      OpCode(t) ==
        CASE t.op = "integrate" -> 3 + 7 * t.a + 11 * SetCode(t.Z)
          [] t.op = "multiply" -> 5 + 7 * t.a + 13 * t.b
          [] t.op = "evidence" -> 17 + 7 * t.a + 11 * SetCode(DOMAIN t.obs)
                                  + 29 * SeqSum([v \in 1..V |-> IF v \in DOMAIN t.obs THEN t.obs[v] + 1 ELSE 0], V)
          [] t.op = "conjugate" -> 19 + 7 * t.a
          [] t.op = "concat" -> 23 + 7 * t.args[1] + 13 * t.args[2]
          [] t.op = "differentiate" -> 31 + 7 * t.a + 37 * t.k
      RECURSIVE O(_)
      O(n) == IF n = 0 THEN 0 ELSE (OpCode(ops[n]) * (n + 1) + 41 * O(n - 1)) % 100003
  IN (F(NL) + B(NB) + 17 * Len(ops) + O(Len(ops)) + H(Len(hist))) % 100003

(* parameter entries whose exact partial derivatives are emitted *)
ThetaSel ==
  IF GradMod = 0 THEN {}
  ELSE {th \in UNION {{<<i, u, j>> : u \in 1..Len(StoreAt(ver)[i]),
                                      j \in 1..Len(StoreAt(ver)[i][1])} : i \in ParamLayers} :
          ((7 * th[1] + 3 * th[2] + th[3] + StructHash) % GradMod) = 0}
GradOf(th) ==
  LET pool == PoolAt(ver, th) IN
  [th |-> th, d |-> [i \in 1..NP |-> IF pool[i].op # "base" /\ ~Evaluable(pool[i]) THEN <<>>
                                     ELSE TableOf(pool, i, 2)]]
Grads == LET s == SetToSeqAny(ThetaSel) IN [n \in 1..Len(s) |-> GradOf(s[n])]

(* exact first partial derivatives of base circuit 1 w.r.t. its continuous inputs (C13:   *)
(* gradients w.r.t. inputs), as the denotation of the term differentiate(1, order 1):      *)
(* per output, one entry per variable of its scope in increasing id, then the output       *)
XGrads ==
  IF GradMod = 0 \/ NB = 0 \/ ~(InputKindsOf(1) \subseteq {"poly"}) THEN <<>>
  ELSE LET sc == OutScopes(Pool, 1)
           pool2 == Append(Pool, [op |-> "differentiate", a |-> 1, k |-> 1]) IN
       <<[scopes |-> [o \in 1..Len(sc) |-> SetToSeq(sc[o])], table |-> TableOf(pool2, NP + 1, 1)]>>

(* marginals of base circuit 1 over every variable subset, indexed by bitmask (bit v-1 = variable v) *)
MaskSet(m) == {v \in 1..V : (m \div IPow(2, v - 1)) % 2 = 1}
QTables ==
  IF ~QueryOn THEN <<>>
  ELSE [m \in 1..(IPow(2, V) - 1) |->
          IF MaskSet(m) \subseteq TermScope(Pool, 1)
          THEN LET as == AssignSeq
                   zs == SetToSeq(MaskSet(m)) IN
               [q \in 1..Len(as) |->
                  LET d == IntOver(Pool, Dom, 1, zs, as[q], XN(as[q]))
                  IN [o \in 1..Len(d) |-> [u \in 1..Len(d[o]) |-> d[o][u][1]]]]
          ELSE <<>>]

(* rows (assignments) at which some unit of some layer evaluates to exactly zero: in the   *)
(* log-space semirings such a unit is represented by log 0, through which no derivative    *)
(* information flows; the gradient equality clause of C13 is evaluated on the other rows   *)
ZeroRows ==
  IF GradMod = 0 THEN <<>>
  ELSE LET as == AssignSeq IN
       [q \in 1..Len(as) |->
          LET vals == ValsUpTo([layers |-> layers, outs |-> <<>>], StoreAt(ver), NoTh,
                               as[q], XN(as[q]), NL)
          IN \E n \in 1..NL : \E u \in 1..Len(vals[n]) : vals[n][u][1] = CZero]

HistJson ==
  [n \in 1..Len(hist) |->
     IF hist[n].a = "eval"
     THEN [a |-> "eval", ver |-> hist[n].ver,
           expect |-> LET pool == PoolAt(hist[n].ver, NoTh) IN
                      [i \in 1..NP |-> IF pool[i].op # "base" /\ ~Evaluable(pool[i]) THEN <<>>
                                       ELSE TableOf(pool, i, 1)]]
     ELSE hist[n]]

Behaviour ==
  [dom |-> Dom, scheme |-> Scheme, polydeg |-> PolyDeg,
   layers |-> layers, bases |-> bases,
   stores |-> [v \in 1..NVer |-> StoreAt([i \in 1..NL |-> v])],
   ops |-> [n \in 1..Len(ops) |-> OpJson(ops[n])],
   expect |-> [i \in 1..NP |-> ExpectOf(Pool, i)],
   hist |-> HistJson,
   grads |-> Grads,
   xgrads |-> XGrads,
   zerorows |-> ZeroRows,
   qtables |-> QTables]

StructBehaviour ==
  [dom |-> Dom, layers |-> layers, bases |-> bases,
   ops |-> [n \in 1..Len(ops) |-> OpJson(ops[n])],
   struct |-> [i \in 1..NP |-> StructOf(i)],
   compat |-> IF NB = 2 THEN <<CompatOn(layers, BaseReach(1), BaseReach(2))>> ELSE <<>>]

MixHash == (((StructHash * 7919 + 4273) % 100003) * 31 + StructHash) % 100003
NonSDBase == \E b \in 1..NB : LET r == BaseReach(b) IN
                SmoothOn(layers, r) /\ DecompOn(layers, r) /\ ~SDOn(layers, r)
HasArity3Product == \E i \in 1..NL : layers[i].kind \in ProdKinds /\ Len(layers[i].ins) >= 3
HashOK == IF EmitFilter = "nonsd" THEN NonSDBase
          ELSE IF EmitFilter = "ar3" THEN HasArity3Product /\ (MixHash % EmitMod) = (EmitRes % EmitMod)
          ELSE NL <= EmitSmall \/ (MixHash % EmitMod) = (EmitRes % EmitMod)
Emitting ==
  /\ Len(ops) \in EmitOps
  /\ HashOK
  /\ IF MaxHist = 0 THEN phase = "ops"
     ELSE phase = "run" /\ Len(hist) = MaxHist /\ Last(hist).a = "eval"
EmitInv == Emitting => PrintT(<<"VP", ToJson(Behaviour)>>)
EmitStructInv == Emitting => PrintT(<<"VP", ToJson(StructBehaviour)>>)

(* C12, the design argument checked by TLC itself: with normalised input rows and normalised *)
(* sum / mixing rows (Scheme 4, 5) every unit of every smooth and decomposable circuit is a  *)
(* probability distribution: non-negative and summing to one over its own scope              *)
NormInv ==
  (Emitting /\ Normalised /\ Len(ops) = 0 /\ SmoothOn(layers, 1..NL) /\ DecompOn(layers, 1..NL))
  => LET as == AssignSeq
         tab == TableOf(Pool, 1, 1)
         sc == OutScopes(Pool, 1) IN
     \A o \in 1..Len(sc) : \A u \in 1..Len(tab[1][o]) :
        /\ \A q \in 1..Len(as) : tab[q][o][u][2] = DZero /\ tab[q][o][u][1][1] >= 0
        /\ LET RECURSIVE S(_)
                S(q) == IF q = 0 THEN DZero ELSE DAdd(S(q - 1), tab[q][o][u][1])
                (* the sum over all assignments counts every assignment of the variables *)
                (* outside the output's scope once: divide by their number               *)
                outside == {v \in 1..V : v \notin sc[o]}
                mult == LET RECURSIVE M(_) M(T) == IF T = {} THEN 1
                                                   ELSE LET v == CHOOSE y \in T : TRUE IN Dom[v] * M(T \ {v})
                        IN M(outside)
            IN S(Len(as)) = DInt(mult)

TypeOK == phase \in {"build", "ops", "run"}
===============================================================================
