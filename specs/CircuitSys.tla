------------------------------ MODULE CircuitSys ------------------------------
(* The top-level state machine whose behaviours are replayed into cirkit:      *)
(*   AddInput / AddInner   build a symbolic circuit layer by layer             *)
(*   Finish                declare its outputs (Circuit(...) is constructed)   *)
(*   ApplyOp               apply a symbolic operator to pool entries           *)
(* Every reachable state with phase # "build" describes a pipeline (a pool of  *)
(* circuits); Expect gives, from Tier R only, what every circuit of the pool   *)
(* must evaluate to once compiled (any flags, any semiring).                   *)
EXTENDS Sem, TLC, Json

CONSTANTS
  Dom,        \* sequence of domain sizes, one per model variable
  KSet,       \* admissible unit counts
  MaxL,       \* max number of layers
  MaxIn,      \* max number of input layers
  InKindSeq,  \* sequence of admissible input kinds (order = canonical order)
  InnerKinds, \* subset of {"sum","mix","had","kron"}
  MaxAr,      \* max arity
  MaxOuts,    \* max number of outputs
  MaxOps,     \* max number of operator applications
  OpSet,      \* admissible operators
  Scheme,     \* valuation scheme id
  OnlySD,     \* TRUE: only smooth and decomposable base circuits are finished
  PolyDeg,    \* degree of polynomial inputs
  DiffK,      \* set of differentiation orders
  EmitOps,    \* emit a behaviour only at states whose number of applied operators is in this set
  EmitMod,    \* ... and whose structural hash is EmitRes modulo EmitMod (1 = emit all)
  EmitRes

VARIABLES layers, outs, ops, phase
vars == <<layers, outs, ops, phase>>

V == Len(Dom)
NL == Len(layers)

KindIdx(k) == CHOOSE i \in 1..Len(InKindSeq) : InKindSeq[i] = k
InKey(l) == l.var * 1000 + KindIdx(l.kind) * 10 + l.K

KindHash(k) == CASE k = "emb" -> 1 [] k = "catp" -> 2 [] k = "catl" -> 3 [] k = "poly" -> 4
                 [] k = "const" -> 5 [] k = "clog" -> 6 [] k = "binom" -> 7 [] k = "sum" -> 8
                 [] k = "mix" -> 9 [] k = "had" -> 10 [] k = "kron" -> 11 [] OTHER -> 12
Layer(kind, var, K, ins) == [kind |-> kind, var |-> var, K |-> K, ins |-> ins]

(* ---------- structure ---------- *)
Sc(i) == LScope(layers, i)
IsSmoothL(ls) == \A i \in 1..Len(ls) : ls[i].kind \in SumKinds =>
                   \A h \in 1..Len(ls[i].ins) : LScope(ls, ls[i].ins[h]) = LScope(ls, i)
IsDecompL(ls) == \A i \in 1..Len(ls) : ls[i].kind \in ProdKinds =>
                   \A h1, h2 \in 1..Len(ls[i].ins) :
                      h1 < h2 => LScope(ls, ls[i].ins[h1]) \cap LScope(ls, ls[i].ins[h2]) = {}

Used(ls, os) == \* every layer is an output or feeds another layer
  \A i \in 1..Len(ls) : (\E o \in 1..Len(os) : os[o] = i)
                        \/ (\E j \in 1..Len(ls) : \E h \in 1..Len(ls[j].ins) : ls[j].ins[h] = i)

(* strictly increasing index sequences of length n over 1..m *)
RECURSIVE IncSeqs(_, _)
IncSeqs(n, m) == IF n = 0 THEN {<<>>}
                 ELSE {Append(s, j) : s \in IncSeqs(n - 1, m), j \in 1..m} 
IsInc(s) == \A a, b \in 1..Len(s) : a < b => s[a] < s[b]
IsInj(s) == \A a, b \in 1..Len(s) : a < b => s[a] # s[b]

(* ---------- actions ---------- *)
Init == layers = <<>> /\ outs = <<>> /\ ops = <<>> /\ phase = "build"

AddInput ==
  /\ phase = "build"
  /\ NL < MaxIn
  /\ \A i \in 1..NL : layers[i].kind \in InputKinds
  /\ \E kind \in {InKindSeq[i] : i \in 1..Len(InKindSeq)}, v \in 1..V, K \in KSet :
       LET l == Layer(kind, IF kind \in {"const", "clog"} THEN 0 ELSE v, K, <<>>) IN
       /\ (kind \in {"const", "clog"} => v = 1)
       /\ (NL > 0 => InKey(layers[NL]) <= InKey(l))
       /\ layers' = Append(layers, l)
  /\ UNCHANGED <<outs, ops, phase>>

AddInner ==
  /\ phase = "build"
  /\ NL >= 1 /\ NL < MaxL
  /\ \E kind \in InnerKinds, n \in 1..MaxAr :
     \E ins \in IncSeqs(n, NL) :
       LET kin == layers[ins[1]].K IN
       /\ \A h \in 1..n : layers[ins[h]].K = kin
       /\ (kind \in {"sum", "had", "mix"} => IsInc(ins))
       /\ (kind = "kron" => IsInj(ins))
       /\ (kind \in ProdKinds => n >= 2)
       /\ (kind = "mix" => n >= 2)
       /\ \E K \in KSet :
            /\ (kind \in {"had", "mix"} => K = kin)
            /\ (kind = "kron" => K = IPow(kin, n))
            /\ layers' = Append(layers, Layer(kind, 0, K, ins))
  /\ UNCHANGED <<outs, ops, phase>>

Finish ==
  /\ phase = "build"
  /\ NL >= 1
  /\ \E n \in 1..MaxOuts : \E os \in IncSeqs(n, NL) :
       /\ IsInj(os)
       /\ \A o \in 1..n : layers[os[o]].K = layers[os[1]].K   \* outputs are stacked: equal units
       /\ Used(layers, os)
       /\ (OnlySD => IsSmoothL(layers) /\ IsDecompL(layers))
       /\ outs' = os
  /\ phase' = "ops"
  /\ UNCHANGED <<layers, ops>>

(* ---------- the pool ---------- *)
RECURSIVE RowDy(_, _, _)
GenVal(l, u, j) ==
  CASE Scheme = 1 -> <<DInt(1 + ((2 * l + 3 * u + 5 * j) % 4)), DZero>>
    [] Scheme = 2 -> <<DNorm(<<((l + 2 * u + 3 * j) % 7) - 3, (l + u + j) % 2>>), DZero>>
    [] Scheme = 3 -> <<DInt(((l + 2 * u + 3 * j) % 5) - 2), DInt(((2 * l + u + j) % 3) - 1)>>
PosVal(l, u, j) == <<DInt(1 + ((2 * l + 3 * u + 5 * j) % 4)), DZero>>
ProbRow(l, u, n) == \* a normalised dyadic row of length n
  LET r == (l + u) % 3 IN
  CASE n = 2 -> (CASE r = 0 -> <<<<1, 2>>, <<3, 2>>>> [] r = 1 -> <<<<3, 2>>, <<1, 2>>>> [] r = 2 -> <<<<1, 1>>, <<1, 1>>>>)
    [] n = 3 -> [j \in 1..3 |-> IF ((j + r) % 3) = 0 THEN <<1, 1>> ELSE <<1, 2>>]
    [] n = 4 -> [j \in 1..4 |-> IF ((j + r) % 4) = 0 THEN <<5, 3>> ELSE <<1, 3>>]
RowDy(l, u, n) == [j \in 1..n |-> <<ProbRow(l, u, n)[j], DZero>>]

LayerStore(ls, i) ==
  LET l == ls[i] IN
  CASE l.kind = "emb"   -> [u \in 1..l.K |-> [j \in 1..Dom[l.var] |-> GenVal(i, u, j)]]
    [] l.kind = "catp"  -> [u \in 1..l.K |-> RowDy(i, u, Dom[l.var])]
    [] l.kind = "catl"  -> [u \in 1..l.K |-> [j \in 1..Dom[l.var] |-> PosVal(i, u, j)]]
    [] l.kind = "poly"  -> [u \in 1..l.K |-> [j \in 1..(PolyDeg + 1) |-> GenVal(i, u, j)]]
    [] l.kind = "const" -> [u \in 1..l.K |-> <<GenVal(i, u, 1)>>]
    [] l.kind = "clog"  -> [u \in 1..l.K |-> <<PosVal(i, u, 1)>>]
    [] l.kind = "sum"   -> [u \in 1..l.K |-> [j \in 1..(Len(l.ins) * ls[l.ins[1]].K) |-> GenVal(i, u, j)]]
    [] l.kind = "mix"   -> [u \in 1..l.K |-> [j \in 1..Len(l.ins) |-> GenVal(i, u, j)]]
    [] OTHER -> <<>>

Store == [i \in 1..NL |-> LayerStore(layers, i)]
BaseTerm == [op |-> "base", c |-> [layers |-> layers, outs |-> outs], st |-> Store]
Pool == <<BaseTerm>> \o ops
NP == 1 + Len(ops)

HasOp(i, o) == Pool[i].op = o
RECURSIVE Mentions(_, _)      \* does term i contain operator o anywhere below it
Mentions(i, o) ==
  LET t == Pool[i] IN
  \/ t.op = o
  \/ (t.op \in {"integrate", "evidence", "conjugate", "differentiate"} /\ Mentions(t.a, o))
  \/ (t.op = "multiply" /\ (Mentions(t.a, o) \/ Mentions(t.b, o)))
  \/ (t.op = "concat" /\ \E n \in 1..Len(t.args) : Mentions(t.args[n], o))

RECURSIVE TermKinds(_)        \* input-layer kinds a term still evaluates (approximation: base kinds)
BaseKindsOn(Z) == {layers[i].kind : i \in {j \in 1..NL : layers[j].kind \in InputKinds /\ layers[j].var \in Z}}
TermKinds(i) == {layers[j].kind : j \in {n \in 1..NL : layers[n].kind \in InputKinds}}

Subsets1(S) == (SUBSET S) \ {{}}

ApplyOp ==
  /\ phase = "ops"
  /\ Len(ops) < MaxOps
  /\ \E a \in 1..NP :
       \/ /\ "integrate" \in OpSet
          /\ ~ Mentions(a, "differentiate")
          /\ \E Z \in Subsets1(TermScope(Pool, a)) :
               /\ BaseKindsOn(Z) \subseteq {"emb", "catp", "catl"}
               /\ ops' = Append(ops, [op |-> "integrate", a |-> a, Z |-> Z])
       \/ /\ "multiply" \in OpSet
          /\ \E b \in 1..NP :
               /\ TermScope(Pool, a) = TermScope(Pool, b)
               /\ ops' = Append(ops, [op |-> "multiply", a |-> a, b |-> b])
       \/ /\ "evidence" \in OpSet
          /\ \E Z \in Subsets1(TermScope(Pool, a)) :
             \E obs \in [Z -> 0..2] :
               /\ \A v \in Z : obs[v] < Dom[v]
               /\ ops' = Append(ops, [op |-> "evidence", a |-> a, obs |-> obs])
       \/ /\ "conjugate" \in OpSet
          /\ ops' = Append(ops, [op |-> "conjugate", a |-> a])
       \/ /\ "concat" \in OpSet
          /\ \E b \in 1..NP :
               ops' = Append(ops, [op |-> "concat", args |-> <<a, b>>])
       \/ /\ "differentiate" \in OpSet
          /\ ~ Mentions(a, "differentiate")
          /\ TermKinds(a) \subseteq {"poly"}
          /\ \E k \in DiffK : ops' = Append(ops, [op |-> "differentiate", a |-> a, k |-> k])
  /\ UNCHANGED <<layers, outs, phase>>

Next == AddInput \/ AddInner \/ Finish \/ ApplyOp
Spec == Init /\ [][Next]_vars

(* ---------- expectations (Tier R) ---------- *)
AssignSeq == \* assignments in lexicographic order, variable 1 most significant
  LET RECURSIVE F(_)
      F(n) == IF n = 0 THEN <<<<>>>>
              ELSE LET prev == F(n - 1) IN
                   [q \in 1..(Len(prev) * Dom[n]) |->
                      Append(prev[((q - 1) \div Dom[n]) + 1], (q - 1) % Dom[n])]
  IN F(V)

ExpectOf(i) ==
  LET as == AssignSeq IN
  [scope |-> SetToSeq(TermScope(Pool, i)),
   table |-> [q \in 1..Len(as) |->
                LET d == DenTerm(Pool, Dom, i, as[q], XN(as[q]))
                IN [o \in 1..Len(d) |-> [u \in 1..Len(d[o]) |-> d[o][u][1]]]]]

OpJson(t) ==
  CASE t.op = "integrate" -> [op |-> t.op, a |-> t.a, Z |-> SetToSeq(t.Z)]
    [] t.op = "evidence" -> [op |-> t.op, a |-> t.a, vars |-> SetToSeq(DOMAIN t.obs),
                             vals |-> [n \in 1..Cardinality(DOMAIN t.obs) |-> t.obs[SetToSeq(DOMAIN t.obs)[n]]]]
    [] OTHER -> t

Behaviour ==
  [dom |-> Dom, scheme |-> Scheme, polydeg |-> PolyDeg,
   layers |-> layers, outs |-> outs,
   store |-> Store,
   ops |-> [n \in 1..Len(ops) |-> OpJson(ops[n])],
   expect |-> [i \in 1..NP |-> ExpectOf(i)]]

RECURSIVE SeqSum(_, _)
SeqSum(s, n) == IF n = 0 THEN 0 ELSE s[n] * n + SeqSum(s, n - 1)
StructHash ==
  LET RECURSIVE F(_)
      F(n) == IF n = 0 THEN 0
              ELSE (n * (KindHash(layers[n].kind) + 3 * layers[n].K + 7 * layers[n].var
                         + 11 * SeqSum(layers[n].ins, Len(layers[n].ins))) + F(n - 1)) % 100003
  IN (F(NL) + 13 * SeqSum(outs, Len(outs)) + 17 * Len(ops)) % 100003

Emitting == phase = "ops" /\ Len(ops) \in EmitOps /\ (StructHash % EmitMod) = (EmitRes % EmitMod)
EmitInv == Emitting => PrintT(<<"VP", ToJson(Behaviour)>>)

(* magnitudes stay far from the 32-bit limit *)
TypeOK == phase \in {"build", "ops"}
===============================================================================
