---- MODULE MC_C01_quick_c_poly_const ----
EXTENDS CircuitSys
c_Dom == <<3, 2>>
c_KSet == {1, 2}
c_MaxL == 4
c_MaxIn == 2
c_InKindSeq == <<"poly", "const", "clog">>
c_InnerKinds == {"had", "kron", "sum"}
c_MaxAr == 2
c_MaxOuts == 2
c_MaxOps == 0
c_OpSet == {}
c_Scheme == 2
c_OnlySD == FALSE
c_PolyDeg == 2
c_DiffK == {1}
c_J == 1
c_EmitOps == {0}
c_EmitMod == 4
c_EmitRes == 0
====
