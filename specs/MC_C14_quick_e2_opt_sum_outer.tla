---- MODULE MC_C14_quick_e2_opt_sum_outer ----
EXTENDS ParamSys
c_Shapes == {<<2, 2, 3>>, <<2, 3, 2>>}
c_MaxLeaves == 2
c_MaxNodes == 4
c_LeafKinds == {"tensor"}
c_OpSet == {"outerprod", "rsum"}
c_LogLeaves == FALSE
c_EmitMod == 4
c_EmitRes == 0
c_PosLeaves == FALSE
====
