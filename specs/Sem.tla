--------------------------------- MODULE Sem ---------------------------------
(* Tier R: reference (denotational) semantics of symbolic circuits and of the *)
(* circuit operators.  Independent of how cirkit computes anything: a circuit *)
(* is a sequence of layers in topological order, a store gives one matrix per *)
(* parameterised layer, and Den is the function the circuit denotes.          *)
(*                                                                            *)
(* Numbers: truncated Taylor jets (length J) of complex dyadic rationals.     *)
(* J = 1 is plain (complex) arithmetic; J = k+1 gives exact k-th derivatives. *)
EXTENDS Integers, Sequences, FiniteSets, Dyadic

CONSTANT J        \* jet length (1 = no derivative information)

(* ---------- numbers ---------- *)
NZero == [i \in 1..J |-> CZero]
NOne  == [i \in 1..J |-> IF i = 1 THEN COne ELSE CZero]
NConst(c) == [i \in 1..J |-> IF i = 1 THEN c ELSE CZero]            \* c complex dyadic
NInt(n) == NConst(CReal(DInt(n)))
NVar(n) == [i \in 1..J |-> IF i = 1 THEN CReal(DInt(n)) ELSE IF i = 2 THEN COne ELSE CZero]
NAdd(a, b) == [i \in 1..J |-> CAdd(a[i], b[i])]
RECURSIVE NConv(_, _, _, _)
NConv(a, b, i, j) == IF j = 0 THEN CZero ELSE CAdd(CMul(a[j], b[i + 1 - j]), NConv(a, b, i, j - 1))
NMul(a, b) == [i \in 1..J |-> NConv(a, b, i, i)]
NConj(a) == [i \in 1..J |-> CConj(a[i])]
NScaleInt(k, a) == [i \in 1..J |-> <<DScale(k, a[i][1]), DScale(k, a[i][2])>>]

RECURSIVE SumTo(_, _)
SumTo(f, n) == IF n = 0 THEN NZero ELSE NAdd(SumTo(f, n - 1), f[n])
RECURSIVE ProdTo(_, _)
ProdTo(f, n) == IF n = 0 THEN NOne ELSE NMul(ProdTo(f, n - 1), f[n])
RECURSIVE IPow(_, _)
IPow(b, e) == IF e = 0 THEN 1 ELSE b * IPow(b, e - 1)

(* ---------- layers ---------- *)
InputKinds == {"emb", "catp", "catl", "poly", "const", "clog", "binom"}
SumKinds   == {"sum", "mix"}
ProdKinds  == {"had", "kron"}

RECURSIVE Horner(_, _, _)
Horner(A, xv, d) == IF d > Len(A) THEN NZero
                    ELSE NAdd(NConst(A[d]), NMul(xv, Horner(A, xv, d + 1)))

(* l: layer record [kind, var, K, ins, ...]; W: its matrix (K rows) in the    *)
(* LINEAR domain (logits / log-space constants are represented by the value    *)
(* they stand for); prev: values of the earlier layers; x: integer assignment; *)
(* xn: numeric assignment (a jet per variable).                                *)
(* P(u, j): entry (u, j) of the layer's matrix as a number; the designated entry th (if it  *)
(* belongs to this layer, n = th[1]) is the jet variable, so that component 2 of every     *)
(* result is the exact partial derivative with respect to that parameter entry (J >= 2).   *)
LayerVal(n, th, l, W, prev, x, xn) ==
  LET P(u, j) == IF th = <<n, u, j>>
                 THEN [i \in 1..J |-> IF i = 1 THEN W[u][j] ELSE IF i = 2 THEN COne ELSE CZero]
                 ELSE NConst(W[u][j])
      RECURSIVE HornerP(_, _, _)
      HornerP(u, xv, d) == IF d > Len(W[u]) THEN NZero
                           ELSE NAdd(P(u, d), NMul(xv, HornerP(u, xv, d + 1)))
  IN
  CASE l.kind \in {"emb", "catp", "catl", "binom"} ->
         [u \in 1..l.K |-> P(u, x[l.var] + 1)]
    [] l.kind = "poly" ->
         [u \in 1..l.K |-> HornerP(u, xn[l.var], 1)]
    [] l.kind \in {"const", "clog"} ->
         [u \in 1..l.K |-> P(u, 1)]
    [] l.kind = "sum" ->
         LET H == Len(l.ins)
             kin == Len(prev[l.ins[1]])
         IN [u \in 1..l.K |->
               SumTo([j \in 1..(H * kin) |->
                        NMul(P(u, j),
                             prev[l.ins[((j - 1) \div kin) + 1]][((j - 1) % kin) + 1])],
                     H * kin)]
    [] l.kind = "mix" ->
         LET H == Len(l.ins)
         IN [u \in 1..l.K |->
               SumTo([h \in 1..H |-> NMul(P(u, h), prev[l.ins[h]][u])], H)]
    [] l.kind = "had" ->
         LET H == Len(l.ins)
         IN [u \in 1..l.K |-> ProdTo([h \in 1..H |-> prev[l.ins[h]][u]], H)]
    [] l.kind = "kron" ->
         LET H == Len(l.ins)
             kin == Len(prev[l.ins[1]])
         IN [u \in 1..l.K |->
               ProdTo([h \in 1..H |->
                         prev[l.ins[h]][(((u - 1) \div IPow(kin, H - h)) % kin) + 1]], H)]

RECURSIVE ValsUpTo(_, _, _, _, _, _)
ValsUpTo(c, st, th, x, xn, n) ==
  IF n = 0 THEN <<>>
  ELSE LET prev == ValsUpTo(c, st, th, x, xn, n - 1)
       IN Append(prev, LayerVal(n, th, c.layers[n], st[n], prev, x, xn))

DenBase(c, st, th, x, xn) ==
  LET vals == ValsUpTo(c, st, th, x, xn, Len(c.layers))
  IN [o \in 1..Len(c.outs) |-> vals[c.outs[o]]]

(* ---------- scopes ---------- *)
RECURSIVE LScope(_, _)
LScope(layers, i) ==
  LET l == layers[i] IN
  IF l.kind \in InputKinds
  THEN (IF l.var = 0 THEN {} ELSE {l.var})
  ELSE UNION {LScope(layers, l.ins[h]) : h \in 1..Len(l.ins)}

(* ---------- operator terms ---------- *)
(* pool: sequence of terms; a term refers to earlier pool entries by index.    *)
(*  [op |-> "base", c, st, th]     th: designated parameter entry or <<0,0,0>> *)
(*  [op |-> "integrate", a, Z]        Z: set of variables                      *)
(*  [op |-> "multiply", a, b]                                                  *)
(*  [op |-> "evidence", a, obs, ed]   obs: function  variable -> value (/ 2^ed)*)
(*  [op |-> "concat", args]           args: sequence of pool indices           *)
(*  [op |-> "conjugate", a]                                                    *)
(*  [op |-> "differentiate", a, k]                                             *)
SetToSeq(S) == LET RECURSIVE F(_) F(T) == IF T = {} THEN <<>>
                     ELSE LET m == CHOOSE y \in T : \A z \in T : y <= z
                          IN <<m>> \o F(T \ {m}) IN F(S)

RECURSIVE OutScopes(_, _)      \* sequence: scope of each output of a term
OutScopes(pool, i) ==
  LET t == pool[i] IN
  CASE t.op = "base" -> [o \in 1..Len(t.c.outs) |-> LScope(t.c.layers, t.c.outs[o])]
    [] t.op = "integrate" -> LET s == OutScopes(pool, t.a) IN [o \in 1..Len(s) |-> s[o] \ t.Z]
    [] t.op = "evidence" -> LET s == OutScopes(pool, t.a) IN [o \in 1..Len(s) |-> s[o] \ DOMAIN t.obs]
    [] t.op = "conjugate" -> OutScopes(pool, t.a)
    [] t.op = "multiply" ->
         LET sa == OutScopes(pool, t.a) sb == OutScopes(pool, t.b) IN
         [o \in 1..(Len(sa) * Len(sb)) |->
            sa[((o - 1) \div Len(sb)) + 1] \cup sb[((o - 1) % Len(sb)) + 1]]
    [] t.op = "concat" ->
         LET RECURSIVE F(_) F(n) == IF n = 0 THEN <<>> ELSE F(n - 1) \o OutScopes(pool, t.args[n])
         IN F(Len(t.args))
    [] t.op = "differentiate" ->
         LET s == OutScopes(pool, t.a)
             RECURSIVE F(_)
             F(n) == IF n = 0 THEN <<>>
                     ELSE F(n - 1) \o [q \in 1..(Cardinality(s[n]) + 1) |-> s[n]]
         IN F(Len(s))

TermScope(pool, i) == LET s == OutScopes(pool, i) IN UNION {s[o] : o \in 1..Len(s)}

TAdd(t1, t2) == [o \in 1..Len(t1) |-> [u \in 1..Len(t1[o]) |-> NAdd(t1[o][u], t2[o][u])]]

RECURSIVE DenTerm(_, _, _, _, _)
RECURSIVE IntOver(_, _, _, _, _, _)
RECURSIVE IntVals(_, _, _, _, _, _, _)

(* dom: sequence of domain sizes (per variable) *)
DenTerm(pool, dom, i, x, xn) ==
  LET t == pool[i] IN
  CASE t.op = "base" -> DenBase(t.c, t.st, t.th, x, xn)
    [] t.op = "integrate" -> IntOver(pool, dom, t.a, SetToSeq(t.Z), x, xn)
    [] t.op = "multiply" ->
         LET ta == DenTerm(pool, dom, t.a, x, xn)
             tb == DenTerm(pool, dom, t.b, x, xn)
             ob == Len(tb)
         IN [o \in 1..(Len(ta) * ob) |->
               LET i1 == ((o - 1) \div ob) + 1
                   j1 == ((o - 1) % ob) + 1
                   kb == Len(tb[j1])
               IN [u \in 1..(Len(ta[i1]) * kb) |->
                     NMul(ta[i1][((u - 1) \div kb) + 1], tb[j1][((u - 1) % kb) + 1])]]
    [] t.op = "evidence" ->
         DenTerm(pool, dom, t.a,
                 [v \in 1..Len(x) |-> IF v \in DOMAIN t.obs THEN t.obs[v] ELSE x[v]],
                 \* continuous inputs are observed at t.obs[v] / 2^t.ed (t.ed = 0 for discrete ones)
                 [v \in 1..Len(x) |-> IF v \in DOMAIN t.obs
                                       THEN NConst(<<DNorm(<<t.obs[v], t.ed>>), DZero>>) ELSE xn[v]])
    [] t.op = "conjugate" ->
         LET ta == DenTerm(pool, dom, t.a, x, xn)
         IN [o \in 1..Len(ta) |-> [u \in 1..Len(ta[o]) |-> NConj(ta[o][u])]]
    [] t.op = "concat" ->
         LET RECURSIVE F(_) F(n) == IF n = 0 THEN <<>>
                                    ELSE F(n - 1) \o DenTerm(pool, dom, t.args[n], x, xn)
         IN F(Len(t.args))
    [] t.op = "differentiate" ->
         (* per output o of the operand, in order: the k-th partial w.r.t. each  *)
         (* variable of that output's scope in increasing id, then the output.   *)
         (* Requires J > t.k and constant jets in xn (no nested differentiation) *)
         LET s  == OutScopes(pool, t.a)
             f0 == DenTerm(pool, dom, t.a, x, xn)
             RECURSIVE F(_)
             F(n) == IF n = 0 THEN <<>>
                     ELSE LET vs == SetToSeq(s[n]) IN
                          F(n - 1)
                          \o [q \in 1..Len(vs) |->
                                LET fj == DenTerm(pool, dom, t.a, x,
                                                  [xn EXCEPT ![vs[q]] = NVar(x[vs[q]])])[n]
                                IN [u \in 1..Len(fj) |->
                                      NScaleInt(Fact(t.k), NConst(fj[u][t.k + 1]))]]
                          \o <<f0[n]>>
         IN F(Len(s))

(* Summation over a variable is applied to every output whose own scope contains it; an  *)
(* output that does not have the variable as an argument is left as it is (multi-output  *)
(* circuits whose outputs have different scopes).                                        *)
IntOver(pool, dom, a, zs, x, xn) ==
  IF zs = <<>> THEN DenTerm(pool, dom, a, x, xn)
  ELSE LET v  == Head(zs)
           S  == IntVals(pool, dom, a, zs, x, xn, dom[v])
           A  == IntVals(pool, dom, a, zs, x, xn, 1)
           sc == OutScopes(pool, a)
       IN [o \in 1..Len(S) |-> IF v \in sc[o] THEN S[o] ELSE A[o]]

IntVals(pool, dom, a, zs, x, xn, n) == \* sum over values 0..n-1 of Head(zs)
  LET v == Head(zs)
      cur == IntOver(pool, dom, a, Tail(zs), [x EXCEPT ![v] = n - 1],
                     [xn EXCEPT ![v] = NInt(n - 1)])
  IN IF n = 1 THEN cur ELSE TAdd(IntVals(pool, dom, a, zs, x, xn, n - 1), cur)

(* all total assignments over dom, as sequences *)
RECURSIVE Assignments(_)
Assignments(dom) ==
  IF dom = <<>> THEN {<<>>}
  ELSE {Append(p, v) : p \in Assignments(SubSeq(dom, 1, Len(dom) - 1)), v \in 0..(dom[Len(dom)] - 1)}

XN(x) == [v \in 1..Len(x) |-> NInt(x[v])]

(* the full table of a term: assignment -> outputs -> units -> order-0 value *)
Table(pool, dom, i) ==
  [x \in Assignments(dom) |->
     LET d == DenTerm(pool, dom, i, x, XN(x))
     IN [o \in 1..Len(d) |-> [u \in 1..Len(d[o]) |-> d[o][u][1]]]]
==============================================================================
