---- MODULE MC_C18_quick_b_three_ctx ----
EXTENDS Pipeline
c_Ctxs == {1, 2, 3}
c_MaxSyms == 2
c_MaxLen == 6
c_EmitMod == 700
c_EmitRes == 0
====
