SPECIFICATION Spec
CONSTANTS
  MaxNodes = 4
  MaxAr = 2
  MaxSteps = 5
  CheckConsumers = TRUE
  CheckOutputs = TRUE
INVARIANT OptRefines
INVARIANT Disjoint
INVARIANT OrderTopological
INVARIANT Converges
CHECK_DEADLOCK FALSE
