SPECIFICATION Spec
CONSTANTS
  Ctxs <- c_Ctxs
  MaxSyms <- c_MaxSyms
  MaxLen <- c_MaxLen
  EmitMod <- c_EmitMod
  EmitRes <- c_EmitRes
INVARIANT TypeOK
INVARIANT NoReentry
INVARIANT Bijective
INVARIANT OperandsFirst
INVARIANT CompiledOnce
INVARIANT OrderMatches
INVARIANT EmitInv
CONSTRAINT Bound
PROPERTY Stable
VIEW view
CHECK_DEADLOCK FALSE
