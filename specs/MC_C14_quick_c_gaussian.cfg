SPECIFICATION Spec
CONSTANTS
  Shapes <- c_Shapes
  MaxLeaves <- c_MaxLeaves
  MaxNodes <- c_MaxNodes
  LeafKinds <- c_LeafKinds
  OpSet <- c_OpSet
  LogLeaves <- c_LogLeaves
  PosLeaves <- c_PosLeaves
  EmitMod <- c_EmitMod
  EmitRes <- c_EmitRes
INVARIANT TypeOK
INVARIANT EmitInv
CHECK_DEADLOCK FALSE
