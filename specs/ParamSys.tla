------------------------------- MODULE ParamSys -------------------------------
(* Tier R: the tensor functions the symbolic parameter nodes document           *)
(* (cirkit.symbolic.parameters), over exact rationals, and a state machine that *)
(* builds parameter graphs node by node (AddLeaf / AddNode) so that TLC          *)
(* enumerates node types x shapes x axes x compositions.                         *)
(*                                                                              *)
(* A tensor is [shape, dom, val]: val is the flat row-major sequence of          *)
(* rationals <<n, d>>.  dom = "lin": the entries are the values; dom = "log":    *)
(* the entries r stand for log r (a chart: exp / log / softmax / log-softmax /   *)
(* sigmoid / softplus / reduce-LSE are then rational functions of r).            *)
(* Every leaf has two valuations (A, B): the second one is used to check that a  *)
(* folded node computes each fold independently.                                 *)
EXTENDS Integers, Sequences, FiniteSets, TLC, Json

CONSTANTS Shapes,     \* set of admissible leaf shapes (sequences of positive integers)
          MaxLeaves, MaxNodes,
          OpSet,      \* node types to generate
          LogLeaves,  \* TRUE: leaves may be in the log domain
          PosLeaves,  \* TRUE: leaves may be positive-valued (standard deviations)
          LeafKinds,  \* subset of {"tensor", "const", "ref"}
          EmitMod, EmitRes

VARIABLES nodes, done
vars == <<nodes, done>>
NN == Len(nodes)

(* ---------- rationals ---------- *)
RECURSIVE GCD(_, _)
GCD(a, b) == IF b = 0 THEN a ELSE GCD(b, a % b)
Abs(x) == IF x < 0 THEN 0 - x ELSE x
RNorm(r) == LET g == GCD(Abs(r[1]), Abs(r[2])) IN
            IF r[1] = 0 THEN <<0, 1>>
            ELSE IF r[2] < 0 THEN <<(0 - r[1]) \div g, (0 - r[2]) \div g>> ELSE <<r[1] \div g, r[2] \div g>>
RAdd(a, b) == RNorm(<<a[1] * b[2] + b[1] * a[2], a[2] * b[2]>>)
RMul(a, b) == RNorm(<<a[1] * b[1], a[2] * b[2]>>)
RDiv(a, b) == RNorm(<<a[1] * b[2], a[2] * b[1]>>)
RSub(a, b) == RAdd(a, <<0 - b[1], b[2]>>)
RInt(n) == <<n, 1>>
RLe(a, b) == a[1] * b[2] <= b[1] * a[2]
RMin(a, b) == IF RLe(a, b) THEN a ELSE b
RMax(a, b) == IF RLe(a, b) THEN b ELSE a
RECURSIVE RSumSeq(_, _)
RSumSeq(s, n) == IF n = 0 THEN <<0, 1>> ELSE RAdd(RSumSeq(s, n - 1), s[n])
RECURSIVE RProdSeq(_, _)
RProdSeq(s, n) == IF n = 0 THEN <<1, 1>> ELSE RMul(RProdSeq(s, n - 1), s[n])
RECURSIVE Fact(_)
Fact(k) == IF k <= 0 THEN 1 ELSE k * Fact(k - 1)

(* ---------- shapes and indices (0-based index tuples, row-major) ---------- *)
RECURSIVE Size(_)
Size(sh) == IF sh = <<>> THEN 1 ELSE Head(sh) * Size(Tail(sh))
RECURSIVE Unravel(_, _)
Unravel(i, sh) == IF sh = <<>> THEN <<>>
                  ELSE LET rest == Size(Tail(sh)) IN <<i \div rest>> \o Unravel(i % rest, Tail(sh))
RECURSIVE Ravel(_, _)
Ravel(idx, sh) == IF sh = <<>> THEN 0
                  ELSE Head(idx) * Size(Tail(sh)) + Ravel(Tail(idx), Tail(sh))
At(t, idx) == t.val[Ravel(idx, t.shape) + 1]
MkVal(sh, F(_)) == [i \in 1..Size(sh) |-> F(Unravel(i - 1, sh))]
Repl(s, k, v) == [s EXCEPT ![k] = v]
Drop(s, k) == SubSeq(s, 1, k - 1) \o SubSeq(s, k + 1, Len(s))
(* the entries along axis k (1-based) through index tuple idx *)
Along(t, idx, k) == [j \in 1..t.shape[k] |-> At(t, Repl(idx, k, j - 1))]
Insert(s, k, v) == SubSeq(s, 1, k - 1) \o <<v>> \o SubSeq(s, k, Len(s))

(* ---------- node semantics: shape, domain and values of a node from its inputs ---------- *)
(* n: node record [op, args, axis, p1, p2, idx]; a, b, c, d: input tensors (unused ones = a) *)
OutShape(n, a, b) ==
  CASE n.op \in {"sum", "had", "square", "clamp", "conj", "exp", "log", "softplus", "sigmoid",
                 "ssigmoid", "softmax", "logsoftmax"} -> a.shape
    [] n.op = "index" -> Repl(a.shape, n.axis, Len(n.idx))
    [] n.op = "kron" -> [i \in 1..Len(a.shape) |-> a.shape[i] * b.shape[i]]
    [] n.op \in {"outerprod", "outersum"} -> Repl(a.shape, n.axis, a.shape[n.axis] * b.shape[n.axis])
    [] n.op \in {"rsum", "rprod", "rlse"} -> Drop(a.shape, n.axis)
    [] n.op = "mix" -> <<a.shape[1], a.shape[1] * a.shape[2]>>
    [] n.op = "polyprod" -> <<a.shape[1] * b.shape[1], a.shape[2] + b.shape[2] - 1>>
    [] n.op = "polydiff" -> <<a.shape[1], IF a.shape[2] > n.p1 THEN a.shape[2] - n.p1 ELSE 1>>
    [] n.op \in {"gmean", "gvar"} -> <<a.shape[1] * b.shape[1]>>

OutDom(n, a) ==
  CASE n.op \in {"exp", "sigmoid", "ssigmoid", "softmax"} -> "lin"
    [] n.op = "log" -> "log"
    [] OTHER -> a.dom

(* admissibility of a node on given inputs (shapes, domains, documented preconditions) *)
Admissible(n, a, b, c, d) ==
  CASE n.op \in {"sum", "had"} -> a.shape = b.shape /\ a.dom = b.dom
                                    /\ (n.op = "had" => a.dom = "lin")
    [] n.op = "kron" -> Len(a.shape) = Len(b.shape) /\ a.dom = "lin" /\ b.dom = "lin"
    [] n.op \in {"outerprod", "outersum"} ->
         /\ Len(a.shape) = Len(b.shape) /\ n.axis \in 1..Len(a.shape)
         /\ Drop(a.shape, n.axis) = Drop(b.shape, n.axis)
         /\ a.dom = b.dom /\ (n.op = "outerprod" => a.dom = "lin")
    [] n.op = "index" -> n.axis \in 1..Len(a.shape) /\ \A k \in 1..Len(n.idx) : n.idx[k] < a.shape[n.axis]
    [] n.op \in {"square", "clamp", "conj"} -> a.dom = "lin"
    [] n.op \in {"exp", "softplus", "sigmoid", "ssigmoid"} -> a.dom = "log"
    [] n.op = "log" -> a.dom = "lin" /\ \A i \in 1..Len(a.val) : a.val[i][1] > 0
    [] n.op \in {"softmax", "logsoftmax", "rlse"} -> a.dom = "log" /\ n.axis \in 1..Len(a.shape)
    [] n.op \in {"rsum", "rprod"} -> a.dom = "lin" /\ n.axis \in 1..Len(a.shape)
    [] n.op = "mix" -> Len(a.shape) = 2 /\ a.dom = "lin"
    [] n.op = "polyprod" -> Len(a.shape) = 2 /\ Len(b.shape) = 2 /\ a.dom = "lin" /\ b.dom = "lin"
    [] n.op = "polydiff" -> Len(a.shape) = 2 /\ a.dom = "lin"
    [] n.op \in {"gmean", "gvar"} ->      \* (mean1, stddev1, mean2, stddev2) as a, c, b, d
         /\ Len(a.shape) = 1 /\ Len(b.shape) = 1 /\ c.shape = a.shape /\ d.shape = b.shape
         /\ a.dom = "lin" /\ b.dom = "lin" /\ c.dom = "lin" /\ d.dom = "lin"
         /\ \A i \in 1..Len(c.val) : c.val[i][1] > 0
         /\ \A i \in 1..Len(d.val) : d.val[i][1] > 0

OutVal(n, a, b, c, d) ==
  LET sh == OutShape(n, a, b)
      k == n.axis IN
  CASE n.op = "sum" -> IF a.dom = "lin" THEN [i \in 1..Len(a.val) |-> RAdd(a.val[i], b.val[i])]
                       ELSE [i \in 1..Len(a.val) |-> RMul(a.val[i], b.val[i])]   \* log r + log s
    [] n.op = "had" -> [i \in 1..Len(a.val) |-> RMul(a.val[i], b.val[i])]
    [] n.op = "kron" ->
         MkVal(sh, LAMBDA idx : RMul(At(a, [i \in 1..Len(idx) |-> idx[i] \div b.shape[i]]),
                                     At(b, [i \in 1..Len(idx) |-> idx[i] % b.shape[i]])))
    [] n.op \in {"outerprod", "outersum"} ->
         MkVal(sh, LAMBDA idx :
                 LET x == At(a, Repl(idx, k, idx[k] \div b.shape[k]))
                     y == At(b, Repl(idx, k, idx[k] % b.shape[k])) IN
                 IF n.op = "outerprod" \/ a.dom = "log" THEN RMul(x, y) ELSE RAdd(x, y))
    [] n.op = "index" -> MkVal(sh, LAMBDA idx : At(a, Repl(idx, k, n.idx[idx[k] + 1])))
    [] n.op = "square" -> [i \in 1..Len(a.val) |-> RMul(a.val[i], a.val[i])]
    [] n.op = "clamp" -> [i \in 1..Len(a.val) |-> RMin(RMax(a.val[i], RInt(n.p1)), RInt(n.p2))]
    [] n.op \in {"conj", "exp", "log"} -> a.val
    [] n.op = "softplus" -> [i \in 1..Len(a.val) |-> RAdd(a.val[i], <<1, 1>>)]
    [] n.op = "sigmoid" -> [i \in 1..Len(a.val) |-> RDiv(a.val[i], RAdd(a.val[i], <<1, 1>>))]
    [] n.op = "ssigmoid" -> [i \in 1..Len(a.val) |->
                               RAdd(RInt(n.p1), RMul(RInt(n.p2 - n.p1),
                                                     RDiv(a.val[i], RAdd(a.val[i], <<1, 1>>))))]
    [] n.op \in {"softmax", "logsoftmax"} ->
         MkVal(sh, LAMBDA idx : LET col == Along(a, idx, k) IN
                                RDiv(At(a, idx), RSumSeq(col, Len(col))))
    [] n.op = "rlse" -> MkVal(sh, LAMBDA idx : LET col == Along(a, Insert(idx, k, 0), k) IN
                                               RSumSeq(col, Len(col)))
    [] n.op = "rsum" -> MkVal(sh, LAMBDA idx : LET col == Along(a, Insert(idx, k, 0), k) IN
                                               RSumSeq(col, Len(col)))
    [] n.op = "rprod" -> MkVal(sh, LAMBDA idx : LET col == Along(a, Insert(idx, k, 0), k) IN
                                                RProdSeq(col, Len(col)))
    [] n.op = "mix" ->    \* W[u][h*K + i] = V[u][h] if i = u else 0
         MkVal(sh, LAMBDA idx : LET K == a.shape[1] IN
                                IF idx[2] % K = idx[1] THEN At(a, <<idx[1], idx[2] \div K>>)
                                ELSE <<0, 1>>)
    [] n.op = "polyprod" ->   \* coefficients of the product, units in Kronecker order
         MkVal(sh, LAMBDA idx :
                 LET i == idx[1] \div b.shape[1]
                     j == idx[1] % b.shape[1]
                     terms == [p \in 1..a.shape[2] |->
                                 LET q == idx[2] - (p - 1) IN
                                 IF q >= 0 /\ q < b.shape[2]
                                 THEN RMul(At(a, <<i, p - 1>>), At(b, <<j, q>>)) ELSE <<0, 1>>]
                 IN RSumSeq(terms, Len(terms)))
    [] n.op = "polydiff" ->   \* k-th derivative: a_(m+k) * (m+k)!/m!
         MkVal(sh, LAMBDA idx :
                 IF a.shape[2] <= n.p1 THEN <<0, 1>>
                 ELSE RMul(At(a, <<idx[1], idx[2] + n.p1>>),
                           RInt(Fact(idx[2] + n.p1) \div Fact(idx[2]))))
    [] n.op = "gmean" ->  \* (m1 v2 + m2 v1) / (v1 + v2), units in Kronecker order
         MkVal(sh, LAMBDA idx :
                 LET i == idx[1] \div b.shape[1]
                     j == idx[1] % b.shape[1]
                     v1 == RMul(c.val[i + 1], c.val[i + 1])
                     v2 == RMul(d.val[j + 1], d.val[j + 1]) IN
                 RDiv(RAdd(RMul(a.val[i + 1], v2), RMul(b.val[j + 1], v1)), RAdd(v1, v2)))
    [] n.op = "gvar" ->   \* variance v1 v2 / (v1 + v2) of the product (the node returns its square root)
         MkVal(sh, LAMBDA idx :
                 LET i == idx[1] \div b.shape[1]
                     j == idx[1] % b.shape[1]
                     v1 == RMul(c.val[i + 1], c.val[i + 1])
                     v2 == RMul(d.val[j + 1], d.val[j + 1]) IN
                 RDiv(RMul(v1, v2), RAdd(v1, v2)))

(* ---------- leaves ---------- *)
LeafVal(sh, dom, l, scheme) ==
  [i \in 1..Size(sh) |->
     LET v == ((3 * l + 5 * i + 4 * scheme) % 7) IN
     IF dom \in {"log", "pos"} THEN (IF v % 2 = 0 THEN <<1 + v \div 2, 1>> ELSE RNorm(<<1 + v, 2>>))  \* positive
     ELSE (IF v = 6 THEN <<0 - 3, 2>> ELSE <<v - 2, 1>>)]

Arity(op) == CASE op \in {"sum", "had", "kron", "outerprod", "outersum", "polyprod"} -> 2
               [] op \in {"gmean", "gvar"} -> 4
               [] OTHER -> 1

(* value of node i (1..NN) under valuation scheme; nodes refer to earlier nodes *)
RECURSIVE TensorOf(_, _)
TensorOf(i, scheme) ==
  LET n == nodes[i] IN
  IF n.op = "leaf"
  THEN [shape |-> n.shape, dom |-> IF n.dom = "pos" THEN "lin" ELSE n.dom,
        val |-> LeafVal(n.shape, n.dom, i, scheme)]
  ELSE LET a == TensorOf(n.args[1], scheme)
           b == IF Len(n.args) >= 2 THEN TensorOf(n.args[2], scheme) ELSE a
           c == IF Len(n.args) >= 3 THEN TensorOf(n.args[3], scheme) ELSE a
           d == IF Len(n.args) >= 4 THEN TensorOf(n.args[4], scheme) ELSE a
       IN [shape |-> OutShape(n, a, b), dom |-> OutDom(n, a), val |-> OutVal(n, a, b, c, d)]

(* 32-bit integers: operators are applied to tensors with small numerators / denominators *)
Small(t) == \A i \in 1..Len(t.val) : Abs(t.val[i][1]) <= 60 /\ t.val[i][2] <= 12

(* ---------- the builder ---------- *)
Init == nodes = <<>> /\ done = FALSE

NumLeaves == Cardinality({i \in 1..NN : nodes[i].op = "leaf"})

AddLeaf ==
  /\ ~done /\ NumLeaves < MaxLeaves /\ NN < MaxNodes
  /\ \A i \in 1..NN : nodes[i].op = "leaf"
  /\ \E sh \in Shapes, dom \in (IF LogLeaves THEN {"lin", "log"} ELSE {"lin"}) \cup
                                 (IF PosLeaves THEN {"pos"} ELSE {}),
        kind \in LeafKinds :
       nodes' = Append(nodes, [op |-> "leaf", shape |-> sh, dom |-> dom, kind |-> kind,
                               args |-> <<>>, axis |-> 0, p1 |-> 0, p2 |-> 0, idx |-> <<>>])
  /\ UNCHANGED done

Params(op, a) ==      \* admissible (axis, p1, p2, idx) combinations for an operator on input a
  LET R == Len(a.shape) IN
  CASE op \in {"outerprod", "outersum", "rsum", "rprod", "rlse", "softmax", "logsoftmax"} ->
         {[axis |-> k, p1 |-> 0, p2 |-> 0, idx |-> <<>>] : k \in 1..R}
    [] op = "index" ->
         UNION {{[axis |-> k, p1 |-> 0, p2 |-> 0, idx |-> ix] :
                   ix \in {<<a.shape[k] - 1>>, <<0, a.shape[k] - 1, 0>>} \cup
                          (IF a.shape[k] >= 2 THEN {<<1, 0>>} ELSE {})} : k \in 1..R}
    [] op = "clamp" -> {[axis |-> 0, p1 |-> 0 - 1, p2 |-> 2, idx |-> <<>>]}
    [] op = "ssigmoid" -> {[axis |-> 0, p1 |-> 1, p2 |-> 3, idx |-> <<>>]}
    [] op = "polydiff" -> {[axis |-> 0, p1 |-> k, p2 |-> 0, idx |-> <<>>] : k \in 1..3}
    [] OTHER -> {[axis |-> 0, p1 |-> 0, p2 |-> 0, idx |-> <<>>]}

RECURSIVE ArgSeqs(_)
ArgSeqs(n) == IF n = 0 THEN {<<>>} ELSE {Append(s, j) : s \in ArgSeqs(n - 1), j \in 1..NN}

AddNode ==
  /\ ~done /\ NN >= 1 /\ NN < MaxNodes
  /\ \E op \in OpSet : \E args \in ArgSeqs(Arity(op)) :
       LET a == TensorOf(args[1], 1)
           b == IF Len(args) >= 2 THEN TensorOf(args[2], 1) ELSE a
           c == IF Len(args) >= 3 THEN TensorOf(args[3], 1) ELSE a
           d == IF Len(args) >= 4 THEN TensorOf(args[4], 1) ELSE a IN
       \E p \in Params(op, a) :
         LET n == [op |-> op, shape |-> <<>>, dom |-> "lin", kind |-> "op", args |-> args,
                   axis |-> p.axis, p1 |-> p.p1, p2 |-> p.p2, idx |-> p.idx] IN
         /\ Admissible(n, a, b, c, d)
         /\ LET a2 == TensorOf(args[1], 2)
                b2 == IF Len(args) >= 2 THEN TensorOf(args[2], 2) ELSE a2
                c2 == IF Len(args) >= 3 THEN TensorOf(args[3], 2) ELSE a2
                d2 == IF Len(args) >= 4 THEN TensorOf(args[4], 2) ELSE a2 IN
            /\ Admissible(n, a2, b2, c2, d2)          \* ... under both valuations
            /\ \A t \in {a, b, c, d, a2, b2, c2, d2} : Small(t)
         /\ (op \in {"gmean", "gvar"} => /\ \A k \in 1..Len(args) : nodes[args[k]].op = "leaf"
                                          /\ nodes[args[3]].dom = "pos" /\ nodes[args[4]].dom = "pos"
                                          /\ nodes[args[1]].dom = "lin" /\ nodes[args[2]].dom = "lin")
         /\ Size(OutShape(n, a, b)) <= 36
         /\ nodes' = Append(nodes, n)
  /\ UNCHANGED done

Used == \A i \in 1..(NN - 1) : \E j \in (i + 1)..NN : \E k \in 1..Len(nodes[j].args) : nodes[j].args[k] = i

Finish == /\ ~done /\ NN >= 1 /\ nodes[NN].op # "leaf" /\ Used
          /\ done' = TRUE /\ UNCHANGED nodes

Next == AddLeaf \/ AddNode \/ Finish
Spec == Init /\ [][Next]_vars

(* ---------- emission ---------- *)
NodeJson(i) ==
  LET n == nodes[i]
      ta == TensorOf(i, 1)
      tb == TensorOf(i, 2) IN
  [op |-> n.op, kind |-> n.kind, args |-> n.args, axis |-> n.axis, p1 |-> n.p1, p2 |-> n.p2,
   idx |-> n.idx, shape |-> ta.shape, dom |-> ta.dom, a |-> ta.val, b |-> tb.val]

RECURSIVE NHash(_)
NHash(i) == IF i = 0 THEN 11
            ELSE LET n == nodes[i] IN
                 (Len(n.op) * 7 + n.axis * 13 + n.p1 * 5 + Len(n.idx) * 3 + Size(TensorOf(i, 1).shape) * 17
                  + (IF n.args = <<>> THEN 1 ELSE n.args[1] * 19 + Len(n.args))
                  + 131 * NHash(i - 1)) % 100003
EmitInv == (done /\ (NHash(NN) % EmitMod) = (EmitRes % EmitMod))
             => PrintT(<<"VP", ToJson([nodes |-> [i \in 1..NN |-> NodeJson(i)]])>>)
TypeOK == done \in BOOLEAN
===============================================================================
