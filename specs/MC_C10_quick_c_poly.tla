---- MODULE MC_C10_quick_c_poly ----
EXTENDS CircuitSys
c_Dom == <<2, 2>>
c_KSet == {2}
c_MaxK == 8
c_MaxL == 3
c_MaxIn == 2
c_InKindSeq == <<"poly">>
c_InnerKinds == {"had", "kron", "sum"}
c_MaxAr == 2
c_FreeOrder == FALSE
c_MaxOuts == 1
c_MaxBases == 1
c_MaxOps == 2
c_OpSet == {"differentiate", "evidence", "multiply"}
c_Scheme == 2
c_OnlySD == TRUE
c_PolyDeg == 2
c_DiffK == {1}
c_MaxDeg == 2
c_EvExp == 0
c_Invalid == FALSE
c_MaxHist == 4
c_RunActs == {"eval", "reset", "update"}
c_NVer == 2
c_GradMod == 0
c_QueryOn == FALSE
c_J == 2
c_EmitOps == {2}
c_EmitMod == 60
c_EmitRes == 0
c_EmitSmall == 0
c_EmitFilter == "all"
====
