---- MODULE MC_C14_quick_b2_comp_charts ----
EXTENDS ParamSys
c_Shapes == {<<2, 3>>}
c_MaxLeaves == 2
c_MaxNodes == 4
c_OpSet == {"exp", "index", "log", "logsoftmax", "outersum", "rlse", "softmax", "sum"}
c_LogLeaves == TRUE
c_EmitMod == 150
c_EmitRes == 0
c_LeafKinds == {"const", "ref", "tensor"}
c_PosLeaves == FALSE
====
