---- MODULE MC_C18_quick_a_two_ctx ----
EXTENDS Pipeline
c_Ctxs == {1, 2}
c_MaxSyms == 3
c_MaxLen == 6
c_EmitMod == 350
c_EmitRes == 0
====
