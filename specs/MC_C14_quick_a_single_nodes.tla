---- MODULE MC_C14_quick_a_single_nodes ----
EXTENDS ParamSys
c_Shapes == {<<1, 2>>, <<2, 1, 2>>, <<2, 2, 3>>, <<2, 3>>, <<2>>, <<3, 2>>, <<3>>}
c_MaxLeaves == 2
c_MaxNodes == 3
c_OpSet == {"clamp", "conj", "exp", "had", "index", "kron", "log", "logsoftmax", "mix", "outerprod", "outersum", "polydiff", "polyprod", "rlse", "rprod", "rsum", "sigmoid", "softmax", "softplus", "square", "ssigmoid", "sum"}
c_LogLeaves == TRUE
c_EmitMod == 9
c_EmitRes == 0
c_LeafKinds == {"const", "ref", "tensor"}
c_PosLeaves == FALSE
====
