------------------------------- MODULE TraceFold -------------------------------
(* Direction B for the mechanism model FoldSys.tla: every record is one execution of      *)
(* cirkit.backend.torch.compiler._fold_circuit observed through the CIRKIT_VERIF hook      *)
(* (unfolded layer graph numbered along the layer-wise ordering, grouping keys, the groups *)
(* the code folded, the address book of the folded circuit).  A record is accepted iff the *)
(* code did exactly what the model does on that graph:                                     *)
(*   1  the record is well-formed (inputs refer to earlier nodes)                          *)
(*   2  the logged frontier of every layer is its level in the model                       *)
(*   3  the folded groups are the model's modules (same members, same order)               *)
(*   4  every address-book entry is the model's entry (input module ids, shortcut kind,    *)
(*      gather indices)                                                                    *)
(*   5  the output entry gathers (module, slice) of the declared outputs, in order         *)
(*   6  the number of folds of every folded module is the size of its group                *)
EXTENDS FoldSys, Json, IOUtils

VARIABLE l
Trace == TLCGet(1)
Lines == Len(Trace)

WellFormed(e) ==
  /\ Len(e.lev) = Len(e.nodes)
  /\ \A i \in 1..Len(e.nodes) : \A h \in 1..Len(e.nodes[i].ins) :
        e.nodes[i].ins[h] \in 1..(i - 1)
  /\ \A o \in 1..Len(e.outs) : e.outs[o] \in 1..Len(e.nodes)

OutEntry(M, outs) ==
  LET fl == [o \in 1..Len(outs) |-> <<ModOf(M, outs[o]), SliceOf(M, outs[o])>>]
      ids == Uniq([k \in 1..Len(fl) |-> fl[k][1]])
      cumof(mid) == CumTo(M, ids, CHOOSE k \in 1..Len(ids) : ids[k] = mid)
  IN [ids |-> ids, idx |-> [o \in 1..Len(fl) |-> cumof(fl[o][1]) + fl[o][2] - 1]]

EntryOK(M, m, b) ==
  LET en == Entry(M, m) IN
  /\ b.kind = en.kind
  /\ (en.kind # "input" => b.ids = en.ids)
  /\ (en.kind = "none" => b.idx = en.idx)

(* evaluated in a state in which  nodes = e.nodes *)
Clause(e) ==
  IF ~WellFormed(e) THEN 1
  ELSE LET lv == LevelSeq IN
       IF lv # e.lev THEN 2
       ELSE LET M == ModulesUpTo(lv, MaxLevelOf(lv)) IN
            IF M # e.groups THEN 3
            ELSE IF Len(e.book) # Len(M) \/ \E m \in 1..Len(M) : ~EntryOK(M, m, e.book[m]) THEN 4
            ELSE IF LET oe == OutEntry(M, e.outs) IN e.out.ids # oe.ids \/ e.out.idx # oe.idx THEN 5
            ELSE IF \E m \in 1..Len(M) : e.folds[m] # Len(M[m]) THEN 6
            ELSE 0

NodesOf(k) == IF k <= Lines THEN Trace[k].nodes ELSE <<>>
TInit == TLCSet(1, ndJsonDeserialize(IOEnv.TRACE_FILE)) /\ l = 1 /\ nodes = NodesOf(1)
ValidateOne ==
  /\ l <= Lines
  /\ LET e == Trace[l]
         cl == Clause(e) IN
     IF cl = 0 THEN PrintT(<<"ACCEPT", ToJson([tid |-> e.tid])>>)
     ELSE PrintT(<<"REJECT", ToJson([tid |-> e.tid, clause |-> cl])>>)
  /\ l' = l + 1
  /\ nodes' = NodesOf(l + 1)
TraceSpec == TInit /\ [][ValidateOne]_<<l, nodes>>
================================================================================
