---- MODULE MC_C14_quick_d_poly ----
EXTENDS ParamSys
c_Shapes == {<<1, 2>>, <<2, 1>>, <<2, 3>>}
c_MaxLeaves == 2
c_MaxNodes == 4
c_OpSet == {"polydiff", "polyprod", "sum"}
c_LogLeaves == FALSE
c_EmitMod == 8
c_EmitRes == 0
c_LeafKinds == {"const", "ref", "tensor"}
c_PosLeaves == FALSE
====
