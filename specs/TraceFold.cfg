SPECIFICATION TraceSpec
CONSTANTS
  Keys = {}
  MaxNodes = 0
  MaxAr = 0
  ShortcutMode = "exact"
CHECK_DEADLOCK FALSE
