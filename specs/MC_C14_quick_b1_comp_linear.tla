---- MODULE MC_C14_quick_b1_comp_linear ----
EXTENDS ParamSys
c_Shapes == {<<2, 2>>}
c_MaxLeaves == 2
c_MaxNodes == 4
c_OpSet == {"had", "index", "kron", "outerprod", "rsum", "square", "sum"}
c_LogLeaves == FALSE
c_EmitMod == 150
c_EmitRes == 0
c_LeafKinds == {"const", "ref", "tensor"}
c_PosLeaves == FALSE
====
