SPECIFICATION Spec
CONSTANTS
  Shapes <- c_Shapes
  MaxT <- c_MaxT
  MaxResets <- c_MaxResets
  EmitMod <- c_EmitMod
  EmitRes <- c_EmitRes
INVARIANT TypeOK
INVARIANT EmitInv
CHECK_DEADLOCK FALSE
