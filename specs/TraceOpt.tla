------------------------------- MODULE TraceOpt -------------------------------
(* Direction B for the mechanism model OptSys.tla: every record is one execution of the   *)
(* layer-fusion pass cirkit.backend.torch.compiler._optimize_layers(shatter=False) that    *)
(* changed the circuit, observed through the CIRKIT_VERIF hook: the layer graph before the *)
(* pass (layers in the circuit's own order, types, inputs, outputs) and after it (for      *)
(* every layer the original layers it stands for, root first, and its inputs).  A record   *)
(* is accepted iff the model's Pass yields exactly the logged graph:                       *)
(*   1  well-formed record        2  the pass visits the layers in the model's ordering     *)
(*   3  same layers (origins) in the same order    4  same inputs    5  same outputs        *)
(*   6  same layer types                                                                     *)
EXTENDS OptSys, Json, IOUtils

VARIABLE l
Trace == TLCGet(1)
Lines == Len(Trace)

GraphOf(e) == [nodes |-> [i \in 1..Len(e.nodes) |->
                            [ty |-> e.nodes[i].ty, chain |-> <<<<e.nodes[i].ty, i>>>>, ins |-> e.nodes[i].ins]],
               outs |-> e.outs]
WellFormed(e) ==
  /\ \A i \in 1..Len(e.nodes) : \A h \in 1..Len(e.nodes[i].ins) : e.nodes[i].ins[h] \in 1..Len(e.nodes)
  /\ \A o \in 1..Len(e.outs) : e.outs[o] \in 1..Len(e.nodes)
Origins(nd) == [k \in 1..Len(nd.chain) |-> nd.chain[k][2]]

Clause(e) ==
  IF ~WellFormed(e) THEN 1
  ELSE LET G == GraphOf(e) IN
       IF Order(G) # e.order THEN 2
       ELSE LET H == Pass(G) IN
            IF Len(H.nodes) # Len(e.after) \/ \E i \in 1..Len(H.nodes) : Origins(H.nodes[i]) # e.after[i].orig THEN 3
            ELSE IF \E i \in 1..Len(H.nodes) : H.nodes[i].ins # e.after[i].ins THEN 4
            ELSE IF H.outs # e.after_outs THEN 5
            ELSE IF \E i \in 1..Len(H.nodes) : H.nodes[i].ty # e.after[i].ty THEN 6
            ELSE 0

TInit == TLCSet(1, ndJsonDeserialize(IOEnv.TRACE_FILE)) /\ l = 1 /\ nodes = <<>> /\ outs = <<>> /\ done = FALSE
ValidateOne ==
  /\ l <= Lines
  /\ LET e == Trace[l]
         cl == Clause(e) IN
     IF cl = 0 THEN PrintT(<<"ACCEPT", ToJson([tid |-> e.tid])>>)
     ELSE PrintT(<<"REJECT", ToJson([tid |-> e.tid, clause |-> cl])>>)
  /\ l' = l + 1
  /\ UNCHANGED vars
TraceSpec == TInit /\ [][ValidateOne]_<<l, vars>>
================================================================================
