---- MODULE MC_C13_quick_e_one_op ----
EXTENDS CircuitSys
c_Dom == <<2, 2>>
c_KSet == {1, 2}
c_MaxK == 8
c_MaxL == 4
c_MaxIn == 2
c_InKindSeq == <<"emb", "catp">>
c_InnerKinds == {"had", "kron", "sum"}
c_MaxAr == 2
c_FreeOrder == FALSE
c_MaxOuts == 1
c_MaxBases == 1
c_MaxOps == 1
c_OpSet == {"evidence", "integrate", "multiply"}
c_Scheme == 1
c_OnlySD == TRUE
c_PolyDeg == 1
c_DiffK == {1}
c_MaxDeg == 2
c_EvExp == 0
c_Invalid == FALSE
c_MaxHist == 0
c_RunActs == {"eval", "update"}
c_NVer == 2
c_GradMod == 3
c_QueryOn == FALSE
c_J == 2
c_EmitOps == {1}
c_EmitMod == 60
c_EmitRes == 0
c_EmitSmall == 2
c_EmitFilter == "all"
====
