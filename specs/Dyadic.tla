------------------------------- MODULE Dyadic -------------------------------
(* Exact dyadic rationals <<n, e>> = n / 2^e  (e >= 0), normalised so that   *)
(* e = 0 or n is odd.  TLC integers are 32 bit: every valuation scheme used  *)
(* by the configurations keeps |n| far below 2^31 (TLC raises on overflow).  *)
EXTENDS Integers, Sequences

RECURSIVE Pow2(_)
Pow2(e) == IF e = 0 THEN 1 ELSE 2 * Pow2(e - 1)

RECURSIVE DNorm(_)
DNorm(a) == IF a[2] > 0 /\ a[1] % 2 = 0 THEN DNorm(<<a[1] \div 2, a[2] - 1>>) ELSE a

DZero == <<0, 0>>
DOne  == <<1, 0>>
DInt(n) == <<n, 0>>
DAdd(a, b) ==
  IF a[2] >= b[2] THEN DNorm(<<a[1] + b[1] * Pow2(a[2] - b[2]), a[2]>>)
                  ELSE DNorm(<<a[1] * Pow2(b[2] - a[2]) + b[1], b[2]>>)
DNeg(a) == <<0 - a[1], a[2]>>
DSub(a, b) == DAdd(a, DNeg(b))
DMul(a, b) == DNorm(<<a[1] * b[1], a[2] + b[2]>>)
DIsZero(a) == a[1] = 0
DEq(a, b) == DNorm(a) = DNorm(b)
DLe(a, b) == DSub(b, a)[1] >= 0
DScale(k, a) == DNorm(<<k * a[1], a[2]>>)

(* complex numbers with dyadic parts: <<re, im>> *)
CZero == <<DZero, DZero>>
COne  == <<DOne, DZero>>
CReal(d) == <<d, DZero>>
CAdd(a, b) == <<DAdd(a[1], b[1]), DAdd(a[2], b[2])>>
CMul(a, b) == <<DSub(DMul(a[1], b[1]), DMul(a[2], b[2])),
                DAdd(DMul(a[1], b[2]), DMul(a[2], b[1]))>>
CConj(a) == <<a[1], DNeg(a[2])>>

(* truncated Taylor jets (sequences of dyadics, index 1 = order 0) *)
JConst(d, n) == [i \in 1..n |-> IF i = 1 THEN d ELSE DZero]
JVar(d, n)   == [i \in 1..n |-> IF i = 1 THEN d ELSE IF i = 2 THEN DOne ELSE DZero]
JAdd(a, b) == [i \in 1..Len(a) |-> DAdd(a[i], b[i])]
RECURSIVE JConv(_, _, _, _)
JConv(a, b, i, j) == \* sum_{m=1..j} a[m]*b[i+1-m]
  IF j = 0 THEN DZero ELSE DAdd(DMul(a[j], b[i + 1 - j]), JConv(a, b, i, j - 1))
JMul(a, b) == [i \in 1..Len(a) |-> JConv(a, b, i, i)]
RECURSIVE Fact(_)
Fact(k) == IF k = 0 THEN 1 ELSE k * Fact(k - 1)
=============================================================================
