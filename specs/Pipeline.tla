------------------------------- MODULE Pipeline -------------------------------
(* Tier R: the abstract state machine of pipeline contexts, the operator       *)
(* registry context variable and the symbolic <-> compiled registries.        *)
(*                                                                            *)
(* Context 0 is the library default (bottom of the stack, never entered).      *)
(* A symbolic circuit is a record [op, args] where args are indices of earlier *)
(* symbolic circuits (its operands).  A compiled circuit is an object id; ids  *)
(* are allocated from a global counter in the order objects are created.       *)
(*                                                                            *)
(* One event per public call (the linearisation point of a sequential library  *)
(* is the return of the call, also on the error path):                         *)
(*   NewBase            Circuit(...)                                          *)
(*   SymOp(op, args)    cirkit.symbolic.functional.<op>(...)                  *)
(*   Enter(c)           c.__enter__()      (c not active: not re-entrant)      *)
(*   Exit / ExitExc     c.__exit__(...) without / with an escaping exception   *)
(*   Compile(c, s)      c.compile(s)   /  pipeline.compile(s) for c = active   *)
(*   CompOp(c, op, as)  c.<op>(compiled...) / pipeline.<op>(...) for c = active*)
(*   BadOp(c, d, s)     operator in c on a compiled object of d: ValueError    *)
(*                                                                            *)
(* The machine is written as a guard Pre(S, e) and a function Post(S, e) on    *)
(* state records, so that the same definitions drive the exploration (Next)    *)
(* and the validation of recorded traces (TracePipeline.tla).                  *)
EXTENDS Integers, Sequences, FiniteSets, TLC, Json

CONSTANTS Ctxs,      \* set of user context ids (1..n)
          MaxSyms,   \* bound on the number of symbolic circuits
          MaxLen,    \* bound on the history length
          EmitMod,   \* 0: emit nothing; n > 0: print the history of the states at depth
                     \* >= MaxLen - 1 whose hash is EmitRes modulo n
          EmitRes

VARIABLES stack,     \* sequence of entered contexts (innermost last)
          syms,      \* sequence of symbolic circuits
          comp,      \* comp[c][s] = object id of the compilation of s in c, 0 if none
          order,     \* order[c] = sequence of symbolic circuits in the order c compiled them
          nobj,      \* number of compiled objects created so far
          hist       \* witness history (not part of the VIEW)
vars == <<stack, syms, comp, order, nobj, hist>>
view == <<stack, syms, comp, order, nobj>>

AllCtx == Ctxs \cup {0}
Ops == {"integrate", "conjugate", "multiply", "concatenate"}
Arity(op) == IF op \in {"multiply", "concatenate"} THEN 2 ELSE 1

State == [stack |-> stack, syms |-> syms, comp |-> comp, order |-> order, nobj |-> nobj]
S0 == [stack |-> <<>>, syms |-> <<>>, comp |-> [c \in AllCtx |-> <<>>],
       order |-> [c \in AllCtx |-> <<>>], nobj |-> 0]

ActiveOf(S) == IF S.stack = <<>> THEN 0 ELSE S.stack[Len(S.stack)]
NSof(S) == Len(S.syms)

RECURSIVE ClosureIn(_, _)  \* transitive operands of a set of symbolic circuits (incl. themselves)
ClosureIn(S, T) ==
  LET nxt == T \cup UNION {{S.syms[s].args[k] : k \in 1..Len(S.syms[s].args)} : s \in T}
  IN IF nxt = T THEN T ELSE ClosureIn(S, nxt)

SetToSeqInc(T) == LET RECURSIVE F(_)
                      F(U) == IF U = {} THEN <<>>
                              ELSE LET m == CHOOSE y \in U : \A z \in U : y <= z
                                   IN <<m>> \o F(U \ {m})
                  IN F(T)

(* integrate removes the variables and concatenate multiplies the outputs: their results   *)
(* are not used as operands again (the other operators would refuse them / the circuits    *)
(* would grow exponentially), so that every modelled call succeeds                         *)
Applicable(S, args) == \A k \in 1..Len(args) :
                          args[k] \in 1..NSof(S) /\ S.syms[args[k]].op \notin {"integrate", "concatenate"}

(* ---------- guards ---------- *)
Pre(S, e) ==
  CASE e.a = "NewBase" -> NSof(S) < MaxSyms /\ e.s = NSof(S) + 1
    [] e.a = "SymOp" -> /\ NSof(S) < MaxSyms /\ e.s = NSof(S) + 1
                        /\ e.op \in Ops /\ Len(e.args) = Arity(e.op) /\ Applicable(S, e.args)
    [] e.a = "Enter" -> e.c \in Ctxs /\ \A k \in 1..Len(S.stack) : S.stack[k] # e.c
    [] e.a \in {"Exit", "ExitExc"} -> S.stack # <<>> /\ e.c = ActiveOf(S)
    [] e.a = "Compile" -> /\ e.c \in AllCtx /\ e.s \in 1..NSof(S)
                          /\ (e.implicit => e.c = ActiveOf(S))
    [] e.a = "CompOp" -> /\ NSof(S) < MaxSyms /\ e.s = NSof(S) + 1 /\ e.c \in AllCtx
                         /\ (e.implicit => e.c = ActiveOf(S))
                         /\ e.op \in Ops /\ Len(e.args) = Arity(e.op) /\ Applicable(S, e.args)
                         /\ \A k \in 1..Len(e.args) : S.comp[e.c][e.args[k]] # 0
    [] e.a = "BadOp" -> /\ e.c \in AllCtx /\ e.from \in AllCtx /\ e.c # e.from
                        /\ e.s \in 1..NSof(S) /\ S.comp[e.from][e.s] # 0
                        /\ \A t \in 1..NSof(S) : S.comp[e.c][t] # S.comp[e.from][e.s]
    [] OTHER -> FALSE

(* ---------- effects ---------- *)
AddSym(S, sym) == [S EXCEPT !.syms = Append(S.syms, sym),
                            !.comp = [c \in AllCtx |-> Append(S.comp[c], 0)]]

(* compile s in c: every not yet compiled circuit of the operand closure, operands first  *)
(* (increasing index is a topological order: operands are created before their results), *)
(* each exactly once, each a fresh object; already compiled circuits are left alone       *)
CompileIn(S, c, s) ==
  LET todo == SetToSeqInc({t \in ClosureIn(S, {s}) : S.comp[c][t] = 0}) IN
  [S EXCEPT !.comp[c] = [t \in 1..Len(S.comp[c]) |->
                           IF \E k \in 1..Len(todo) : todo[k] = t
                           THEN S.nobj + (CHOOSE k \in 1..Len(todo) : todo[k] = t)
                           ELSE S.comp[c][t]],
            !.order[c] = S.order[c] \o todo,
            !.nobj = S.nobj + Len(todo)]

Post(S, e) ==
  CASE e.a = "NewBase" -> AddSym(S, [op |-> "base", args |-> <<>>])
    [] e.a = "SymOp" -> AddSym(S, [op |-> e.op, args |-> e.args])
    [] e.a = "Enter" -> [S EXCEPT !.stack = Append(S.stack, e.c)]
    [] e.a \in {"Exit", "ExitExc"} -> [S EXCEPT !.stack = SubSeq(S.stack, 1, Len(S.stack) - 1)]
    [] e.a = "Compile" -> CompileIn(S, e.c, e.s)
    [] e.a = "CompOp" ->  \* = Compile(c, SymOp(op, symbolic circuits of the arguments))
         CompileIn(AddSym(S, [op |-> e.op, args |-> e.args]), e.c, e.s)
    [] e.a = "BadOp" -> S

(* ---------- exploration ---------- *)
Events(S) ==
  LET ns == NSof(S) + 1
      argsOf(op, a, b) == IF Arity(op) = 2 THEN <<a, b>> ELSE <<a>> IN
  {[a |-> "NewBase", s |-> ns]}
  \cup {[a |-> "SymOp", op |-> op, args |-> argsOf(op, a, b), s |-> ns] :
          op \in Ops, a \in 1..NSof(S), b \in 1..NSof(S)}
  \cup {[a |-> "Enter", c |-> c] : c \in Ctxs}
  \cup {[a |-> x, c |-> ActiveOf(S)] : x \in {"Exit", "ExitExc"}}
  \cup {[a |-> "Compile", c |-> c, s |-> s, implicit |-> i] :
          c \in AllCtx, s \in 1..NSof(S), i \in BOOLEAN}
  \cup {[a |-> "CompOp", c |-> c, op |-> op, args |-> argsOf(op, a, b), s |-> ns, implicit |-> i] :
          c \in AllCtx, op \in Ops, a \in 1..NSof(S), b \in 1..NSof(S), i \in BOOLEAN}
  \cup {[a |-> "BadOp", c |-> c, from |-> d, s |-> s] :
          c \in AllCtx, d \in AllCtx, s \in 1..NSof(S)}

Projection(S) == [active |-> ActiveOf(S), stack |-> S.stack, nsyms |-> NSof(S),
                  comp |-> [c \in 0..(Cardinality(Ctxs)) |-> S.comp[c]],
                  order |-> [c \in 0..(Cardinality(Ctxs)) |-> S.order[c]]]

Init == /\ stack = S0.stack /\ syms = S0.syms /\ comp = S0.comp /\ order = S0.order
        /\ nobj = S0.nobj /\ hist = <<>>

Assign(T) == /\ stack' = T.stack /\ syms' = T.syms /\ comp' = T.comp /\ order' = T.order
             /\ nobj' = T.nobj

Next == \E e \in Events(State) :
          /\ Pre(State, e)
          /\ LET T == Post(State, e) IN
             /\ Assign(T)
             /\ hist' = Append(hist, [ev |-> e, post |-> Projection(T)])
Spec == Init /\ [][Next]_vars

Bound == Len(hist) <= MaxLen

(* ---------- properties of the design, checked by TLC on every reachable state ---------- *)
NS == Len(syms)
TypeOK == /\ \A c \in AllCtx : Len(comp[c]) = NS
          /\ \A k \in 1..Len(stack) : stack[k] \in Ctxs
NoReentry == \A j, k \in 1..Len(stack) : j < k => stack[j] # stack[k]
(* the symbolic/compiled association of every context is a bijection (objects are never shared) *)
Bijective == \A c, d \in AllCtx : \A s, t \in 1..NS :
               (comp[c][s] # 0 /\ comp[c][s] = comp[d][t]) => (c = d /\ s = t)
(* operands are compiled before (and once for) the circuits derived from them *)
OperandsFirst == \A c \in AllCtx : \A k \in 1..Len(order[c]) :
                   \A j \in 1..Len(syms[order[c][k]].args) :
                      \E i \in 1..(k - 1) : order[c][i] = syms[order[c][k]].args[j]
CompiledOnce == \A c \in AllCtx : \A i, j \in 1..Len(order[c]) : i < j => order[c][i] # order[c][j]
OrderMatches == \A c \in AllCtx : {order[c][k] : k \in 1..Len(order[c])} = {s \in 1..NS : comp[c][s] # 0}
(* compiled objects are never replaced: action property *)
Stable == [][\A c \in AllCtx : \A s \in 1..NS : comp[c][s] # 0 => comp'[c][s] = comp[c][s]]_vars

(* ---------- emission ---------- *)
RECURSIVE HHash(_)
HHash(n) == IF n = 0 THEN 7
            ELSE LET e == hist[n].ev IN
                 ((IF "c" \in DOMAIN e THEN 3 + e.c ELSE 1) * 31 + (IF "s" \in DOMAIN e THEN e.s ELSE 2) * 17
                  + Len(e.a) * 5 + n + 131 * HHash(n - 1)) % 100003
EmitInv == (EmitMod > 0 /\ Len(hist) >= MaxLen - 1 /\ (HHash(Len(hist)) % EmitMod) = (EmitRes % EmitMod))
             => PrintT(<<"VP", ToJson([hist |-> hist])>>)
===============================================================================
