---- MODULE MC_C17_quick_a_groups ----
EXTENDS InitSys
c_Shapes == {<<2, 2>>, <<2, 3>>, <<3, 2>>}
c_MaxT == 3
c_MaxResets == 2
c_EmitMod == 450
c_EmitRes == 0
====
