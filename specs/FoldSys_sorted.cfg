SPECIFICATION Spec
CONSTANTS
  Keys = {"a", "b"}
  MaxNodes = 4
  MaxAr = 2
  ShortcutMode = "sorted"
INVARIANT FoldRefines
INVARIANT Partition
CHECK_DEADLOCK FALSE
