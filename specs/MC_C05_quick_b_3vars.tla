---- MODULE MC_C05_quick_b_3vars ----
EXTENDS CircuitSys
c_Dom == <<2, 2, 2>>
c_KSet == {1}
c_MaxK == 8
c_MaxL == 5
c_MaxIn == 3
c_InKindSeq == <<"poly">>
c_InnerKinds == {"had", "sum"}
c_MaxAr == 3
c_FreeOrder == TRUE
c_MaxOuts == 1
c_MaxBases == 1
c_MaxOps == 1
c_OpSet == {"differentiate"}
c_Scheme == 2
c_OnlySD == TRUE
c_PolyDeg == 1
c_DiffK == {1}
c_MaxDeg == 2
c_EvExp == 0
c_Invalid == FALSE
c_MaxHist == 0
c_RunActs == {"eval", "update"}
c_NVer == 2
c_GradMod == 0
c_QueryOn == FALSE
c_J == 2
c_EmitOps == {1}
c_EmitMod == 11
c_EmitRes == 0
c_EmitSmall == 4
c_EmitFilter == "all"
====
