SPECIFICATION Spec
CONSTANTS
  Dom <- c_Dom
  KSet <- c_KSet
  MaxL <- c_MaxL
  MaxIn <- c_MaxIn
  InKindSeq <- c_InKindSeq
  InnerKinds <- c_InnerKinds
  MaxAr <- c_MaxAr
  MaxOuts <- c_MaxOuts
  MaxOps <- c_MaxOps
  OpSet <- c_OpSet
  Scheme <- c_Scheme
  OnlySD <- c_OnlySD
  PolyDeg <- c_PolyDeg
  DiffK <- c_DiffK
  J <- c_J
  EmitOps <- c_EmitOps
  EmitMod <- c_EmitMod
  EmitRes <- c_EmitRes
INVARIANT TypeOK
INVARIANT EmitInv
CHECK_DEADLOCK FALSE
