---- MODULE MC_C10_quick_d_long_hist ----
EXTENDS CircuitSys
c_Dom == <<2, 2>>
c_KSet == {2}
c_MaxK == 8
c_MaxL == 3
c_MaxIn == 2
c_InKindSeq == <<"emb">>
c_InnerKinds == {"had", "kron", "sum"}
c_MaxAr == 2
c_FreeOrder == FALSE
c_MaxOuts == 1
c_MaxBases == 1
c_MaxOps == 1
c_OpSet == {"integrate", "multiply"}
c_Scheme == 1
c_OnlySD == TRUE
c_PolyDeg == 1
c_DiffK == {1}
c_MaxDeg == 2
c_EvExp == 0
c_Invalid == FALSE
c_MaxHist == 6
c_RunActs == {"eval", "load", "reset", "save", "update"}
c_NVer == 2
c_GradMod == 0
c_QueryOn == FALSE
c_J == 1
c_EmitOps == {1}
c_EmitMod == 150
c_EmitRes == 0
c_EmitSmall == 0
c_EmitFilter == "all"
====
