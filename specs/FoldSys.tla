-------------------------------- MODULE FoldSys --------------------------------
(* Tier M (mechanism): the folding algorithm of the torch backend                   *)
(* (cirkit/backend/torch/graph/folding.py: build_folded_graph, group_foldable_modules,*)
(* build_address_book_stacked_entry) over abstract modules, and the evaluation of     *)
(* the folded graph through the address book.                                         *)
(*                                                                                    *)
(* A graph is built node by node (AddNode); every node has a key (everything the code *)
(* groups by: type, configuration, parameter shapes) and an ordered list of inputs.    *)
(* Values are uninterpreted terms <<key, input values>>, so that ANY mix-up of inputs, *)
(* folds or order changes the value: the invariant FoldRefines states that the value   *)
(* found at (module, slice) of the folded graph is the value of the unfolded node.     *)
(*                                                                                    *)
(* ShortcutMode = "exact" is the condition the code checks before replacing a gather   *)
(* by an unsqueeze; "sorted" is the weaker condition of seeded change C01-m1 / C02-m2   *)
(* (TLC returns a counterexample for it: the model is not vacuous).                    *)
EXTENDS Integers, Sequences, FiniteSets, TLC

CONSTANTS Keys, MaxNodes, MaxAr, ShortcutMode

VARIABLES nodes            \* sequence of [key, ins]; ins refer to earlier nodes
NN == Len(nodes)

RECURSIVE AllSeqs(_, _)
AllSeqs(n, m) == IF n = 0 THEN {<<>>} ELSE {Append(s, j) : s \in AllSeqs(n - 1, m), j \in 1..m}

Init == nodes = <<>>
AddNode == /\ NN < MaxNodes
           /\ \E k \in Keys, n \in 0..MaxAr : \E ins \in AllSeqs(n, NN) :
                nodes' = Append(nodes, [key |-> k, ins |-> ins])
Spec == Init /\ [][AddNode]_nodes

(* ---------- unfolded semantics ---------- *)
RECURSIVE Val(_)
(* an input module (no inputs) has its own parameters: its value carries its identity *)
Val(i) == IF nodes[i].ins = <<>> THEN <<nodes[i].key, <<i>>>>
          ELSE <<nodes[i].key, [h \in 1..Len(nodes[i].ins) |-> Val(nodes[i].ins[h])]>>

(* ---------- layer-wise topological ordering ---------- *)
(* level of every node, bottom-up (node ids are a topological order): 1 for input modules, *)
(* else 1 + the largest level of an input = the frontier in which the node becomes ready   *)
MaxOf(S) == CHOOSE m \in S : \A y \in S : y <= m
LevelSeq ==
  LET RECURSIVE LS(_)
      LS(n) == IF n = 0 THEN <<>>
               ELSE LET p == LS(n - 1) IN
                    Append(p, IF nodes[n].ins = <<>> THEN 1
                              ELSE 1 + MaxOf({p[nodes[n].ins[h]] : h \in 1..Len(nodes[n].ins)}))
  IN LS(NN)
MaxLevelOf(lv) == IF NN = 0 THEN 0 ELSE MaxOf({lv[i] : i \in 1..NN})

(* ---------- folding: groups of one frontier by key, in order of first appearance ---------- *)
GroupKey(i) == <<nodes[i].key, Len(nodes[i].ins)>>
SetToSeqInc(S) == LET RECURSIVE F(_)
                      F(T) == IF T = {} THEN <<>>
                              ELSE LET m == CHOOSE y \in T : \A z \in T : y <= z IN <<m>> \o F(T \ {m})
                  IN F(S)
(* the groups of frontier l, each a sequence of node ids in frontier order *)
GroupsOf(lv, l) ==
  LET fr == SetToSeqInc({i \in 1..NN : lv[i] = l})
      RECURSIVE G(_, _)
      G(k, acc) ==   \* acc: sequence of groups
        IF k > Len(fr) THEN acc
        ELSE LET i == fr[k]
                 pos == {g \in 1..Len(acc) : GroupKey(acc[g][1]) = GroupKey(i)} IN
             IF pos = {} THEN G(k + 1, Append(acc, <<i>>))
             ELSE LET g == CHOOSE g \in pos : TRUE IN G(k + 1, [acc EXCEPT ![g] = Append(acc[g], i)])
  IN G(1, <<>>)
RECURSIVE ModulesUpTo(_, _)
ModulesUpTo(lv, l) == IF l = 0 THEN <<>> ELSE ModulesUpTo(lv, l - 1) \o GroupsOf(lv, l)
Modules == LET lv == LevelSeq IN ModulesUpTo(lv, MaxLevelOf(lv))   \* sequence of groups = folded modules
(* M is the sequence of folded modules (Modules), computed once per state *)
ModOf(M, i) == CHOOSE m \in 1..Len(M) : \E s \in 1..Len(M[m]) : M[m][s] = i
SliceOf(M, i) == CHOOSE s \in 1..Len(M[ModOf(M, i)]) : M[ModOf(M, i)][s] = i

(* ---------- stacked address book entry of module m ---------- *)
InFoldIdx(M, m) == [f \in 1..Len(M[m]) |->
                      [h \in 1..Len(nodes[M[m][f]].ins) |->
                         <<ModOf(M, nodes[M[m][f]].ins[h]), SliceOf(M, nodes[M[m][f]].ins[h])>>]]
Flat(ss) == LET RECURSIVE F(_) F(k) == IF k = 0 THEN <<>> ELSE F(k - 1) \o ss[k] IN F(Len(ss))
RECURSIVE Uniq(_)
Uniq(s) == IF s = <<>> THEN <<>>
           ELSE LET r == Uniq(SubSeq(s, 1, Len(s) - 1)) IN
                IF \E k \in 1..Len(r) : r[k] = s[Len(s)] THEN r ELSE Append(r, s[Len(s)])
RECURSIVE CumTo(_, _, _)
CumTo(M, ids, k) == IF k = 1 THEN 0 ELSE CumTo(M, ids, k - 1) + Len(M[ids[k - 1]])
IsRange(s, n) == Len(s) = n /\ \A k \in 1..n : s[k] = k - 1
IsPermOfRange(s, n) == Len(s) = n /\ {s[k] : k \in 1..n} = 0..(n - 1)

(* the address book entry of module m: [kind, ids (input module ids), idx (0-based gather indices)] *)
(* kind "none": gather with the index tensor; "dim0": x[None]; "dim1": x[:, None]; "input": no input *)
Entry(M, m) ==
  LET ifi == InFoldIdx(M, m)
      fl == Flat(ifi)
      ids == Uniq([k \in 1..Len(fl) |-> fl[k][1]])
      cumof(mid) == CumTo(M, ids, CHOOSE k \in 1..Len(ids) : ids[k] = mid)
      c == [f \in 1..Len(ifi) |-> [h \in 1..Len(ifi[f]) |-> cumof(ifi[f][h][1]) + ifi[f][h][2] - 1]]
      size == CumTo(M, ids, Len(ids) + 1)
      flat == Flat(c)
      cond == IF ShortcutMode = "exact" THEN IsRange(flat, size) ELSE IsPermOfRange(flat, size)
      kind == IF c = <<>> \/ c[1] = <<>> THEN "input"
              ELSE IF cond /\ Len(c) = 1 /\ Len(c[1]) = size THEN "dim0"
              ELSE IF cond /\ Len(c) = size /\ Len(c[1]) = 1 THEN "dim1"
              ELSE "none"
  IN [kind |-> kind, ids |-> ids, idx |-> c]

(* ---------- evaluation of the folded graph, module by module (bottom-up) ---------- *)
RECURSIVE ModValsUpTo(_, _)
ModValsUpTo(M, m) ==      \* sequence of the outputs of modules 1..m (each a sequence over folds)
  IF m = 0 THEN <<>>
  ELSE LET prev == ModValsUpTo(M, m - 1)
           g == M[m]
           key == nodes[g[1]].key
           e == Entry(M, m)
           x == Flat([k \in 1..Len(e.ids) |-> prev[e.ids[k]]])     \* stacked input
           out == CASE e.kind = "input" -> [f \in 1..Len(g) |-> <<key, <<g[f]>>>>]
                    [] e.kind = "dim0" -> <<<<key, x>>>>
                    [] e.kind = "dim1" -> [f \in 1..Len(x) |-> <<key, <<x[f]>>>>]
                    [] e.kind = "none" -> [f \in 1..Len(g) |-> <<key, [h \in 1..Len(e.idx[f]) |-> x[e.idx[f][h] + 1]]>>]
       IN Append(prev, out)

FoldRefines ==
  LET M == Modules
      vals == ModValsUpTo(M, Len(M)) IN
  \A i \in 1..NN : LET m == ModOf(M, i) IN
                    SliceOf(M, i) <= Len(vals[m]) /\ vals[m][SliceOf(M, i)] = Val(i)
(* every node is exactly one slice of exactly one module *)
Partition ==
  LET M == Modules IN
  /\ \A i \in 1..NN : \E m \in 1..Len(M) : \E s \in 1..Len(M[m]) : M[m][s] = i
  /\ \A m1, m2 \in 1..Len(M) : \A s1 \in 1..Len(M[m1]) : \A s2 \in 1..Len(M[m2]) :
       M[m1][s1] = M[m2][s2] => (m1 = m2 /\ s1 = s2)
================================================================================
