---- MODULE MC_C13_quick_f_zeros_nonneg ----
EXTENDS CircuitSys
c_Dom == <<2, 2>>
c_KSet == {1, 2}
c_MaxK == 8
c_MaxL == 4
c_MaxIn == 2
c_InKindSeq == <<"emb">>
c_InnerKinds == {"had", "mix", "sum"}
c_MaxAr == 2
c_FreeOrder == FALSE
c_MaxOuts == 2
c_MaxBases == 1
c_MaxOps == 0
c_OpSet == {}
c_Scheme == 7
c_OnlySD == FALSE
c_PolyDeg == 1
c_DiffK == {1}
c_MaxDeg == 2
c_EvExp == 0
c_Invalid == FALSE
c_MaxHist == 0
c_RunActs == {"eval", "update"}
c_NVer == 2
c_GradMod == 2
c_QueryOn == FALSE
c_J == 2
c_EmitOps == {0}
c_EmitMod == 30
c_EmitRes == 0
c_EmitSmall == 3
c_EmitFilter == "all"
====
