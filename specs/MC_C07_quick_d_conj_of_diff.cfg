SPECIFICATION Spec
CONSTANTS
  Dom <- c_Dom
  KSet <- c_KSet
  MaxK <- c_MaxK
  MaxL <- c_MaxL
  MaxIn <- c_MaxIn
  InKindSeq <- c_InKindSeq
  InnerKinds <- c_InnerKinds
  MaxAr <- c_MaxAr
  FreeOrder <- c_FreeOrder
  MaxOuts <- c_MaxOuts
  MaxBases <- c_MaxBases
  MaxOps <- c_MaxOps
  OpSet <- c_OpSet
  Scheme <- c_Scheme
  OnlySD <- c_OnlySD
  PolyDeg <- c_PolyDeg
  DiffK <- c_DiffK
  MaxDeg <- c_MaxDeg
  EvExp <- c_EvExp
  Invalid <- c_Invalid
  MaxHist <- c_MaxHist
  RunActs <- c_RunActs
  NVer <- c_NVer
  GradMod <- c_GradMod
  QueryOn <- c_QueryOn
  J <- c_J
  EmitOps <- c_EmitOps
  EmitMod <- c_EmitMod
  EmitRes <- c_EmitRes
  EmitSmall <- c_EmitSmall
  EmitFilter <- c_EmitFilter
INVARIANT TypeOK
INVARIANT EmitInv
CHECK_DEADLOCK FALSE
