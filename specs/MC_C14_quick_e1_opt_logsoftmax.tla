---- MODULE MC_C14_quick_e1_opt_logsoftmax ----
EXTENDS ParamSys
c_Shapes == {<<2, 3>>, <<3, 2>>}
c_MaxLeaves == 1
c_MaxNodes == 3
c_LeafKinds == {"tensor"}
c_OpSet == {"log", "softmax"}
c_LogLeaves == TRUE
c_EmitMod == 1
c_EmitRes == 0
c_PosLeaves == FALSE
====
