---------------------------- MODULE TracePipeline ----------------------------
(* Direction B: validation of sessions recorded from the real PipelineContext   *)
(* objects against the actions of Pipeline.tla.                                 *)
(*                                                                              *)
(* The file named by the environment variable TRACE_FILE holds one JSON record  *)
(* per public call, many traces one after the other (field tid); every record   *)
(* carries the call (a, c, s, op, args, implicit, from), whether the driver saw *)
(* the call behave (ok) and the projection of the implementation state after it:*)
(* active context, context whose operator registry is installed, number of      *)
(* symbolic circuits, per context the identity (small integers, in order of     *)
(* first sight) of the compiled object of every symbolic circuit, and the order *)
(* in which each context compiled circuits.                                     *)
(*                                                                              *)
(* A record is accepted iff Pre holds in the model state, and the logged        *)
(* projection equals the projection of Post, object identities being compared   *)
(* up to a renaming that must extend the renaming of the previous step          *)
(* (compiled objects are never replaced) and be injective (never shared).       *)
(* A trace is accepted iff all its records are.                                 *)
EXTENDS Pipeline, IOUtils

Trace == ndJsonDeserialize(IOEnv.TRACE_FILE)
Lines == Len(Trace)

VARIABLES l,       \* next line to consume
          cur,     \* tid of the trace being validated (0: none)
          idmap    \* model object id -> logged object id
tvars == <<vars, l, cur, idmap>>

TCtxs == {1, 2, 3}

ev == Trace[l]
T == Post(State, ev)

LoggedOf(m) ==
  LET p == CHOOSE p \in AllCtx \X (1..NSof(T)) : T.comp[p[1]][p[2]] = m
  IN ev.comp[p[1] + 1][p[2]]
NewIdmap == [m \in 1..T.nobj |-> LoggedOf(m)]

ShapeOK == /\ Len(ev.comp) = Cardinality(AllCtx) /\ Len(ev.order) = Cardinality(AllCtx)
           /\ \A c \in AllCtx : Len(ev.comp[c + 1]) = NSof(T)

(* The order in which a context compiles the circuits of one call is any order in which    *)
(* operands come first (Pipeline.tla picks one representative); the logged order is         *)
(* adopted as the model state if it is admissible: the old order is a prefix (append-only), *)
(* exactly the circuits the model compiles are added, each once, operands first.            *)
LoggedOrder == [c \in AllCtx |-> ev.order[c + 1]]
OrderOK ==
  \A c \in AllCtx :
    LET old == State.order[c]
        new == ev.order[c + 1] IN
    /\ Len(new) = Len(T.order[c])
    /\ Len(new) >= Len(old) /\ SubSeq(new, 1, Len(old)) = old
    /\ {new[k] : k \in 1..Len(new)} = {T.order[c][k] : k \in 1..Len(T.order[c])}
    /\ \A k \in 1..Len(new) : new[k] \in 1..NSof(T) /\
          \A j \in 1..Len(T.syms[new[k]].args) :
             \E i \in 1..(k - 1) : new[i] = T.syms[new[k]].args[j]
Tadopt == [T EXCEPT !.order = LoggedOrder]

Matches ==
  /\ ev.ok
  /\ Pre(State, ev)
  /\ ev.active = ActiveOf(T)                 \* the active pipeline context
  /\ ev.registry = ActiveOf(T)               \* ... and its operator registry
  /\ ev.nsyms = NSof(T)
  /\ ShapeOK
  /\ \A c \in AllCtx : \A s \in 1..NSof(T) : (ev.comp[c + 1][s] = 0) <=> (T.comp[c][s] = 0)
  /\ OrderOK
  /\ LET nm == NewIdmap IN
     /\ \A m \in 1..Len(idmap) : nm[m] = idmap[m]                         \* never replaced
     /\ \A m1, m2 \in 1..T.nobj : m1 # m2 => nm[m1] # nm[m2]             \* never shared

LastOfTrace == l = Lines \/ Trace[l + 1].tid # cur

RECURSIVE SkipFrom(_)
SkipFrom(j) == IF j > Lines \/ Trace[j].tid # cur THEN j ELSE SkipFrom(j + 1)

TInit == Init /\ l = 1 /\ cur = 0 /\ idmap = <<>>

Load ==
  /\ l <= Lines /\ ev.tid # cur
  /\ Assign(S0) /\ hist' = hist
  /\ cur' = ev.tid /\ idmap' = <<>> /\ l' = l

Consume ==
  /\ l <= Lines /\ ev.tid = cur
  /\ Matches
  /\ Assign(Tadopt) /\ hist' = hist
  /\ idmap' = NewIdmap
  /\ l' = l + 1 /\ cur' = cur
  /\ (LastOfTrace => PrintT(<<"ACCEPT", ToJson([tid |-> cur, events |-> ev.seq])>>))

Reject ==
  /\ l <= Lines /\ ev.tid = cur
  /\ ~Matches
  /\ PrintT(<<"REJECT", ToJson([tid |-> cur, line |-> ev.seq, a |-> ev.a])>>)
  /\ l' = SkipFrom(l) /\ cur' = cur
  /\ UNCHANGED <<vars, idmap>>

TNext == Load \/ Consume \/ Reject
TraceSpec == TInit /\ [][TNext]_tvars
Done == l = Lines + 1
==============================================================================
