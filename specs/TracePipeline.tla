---------------------------- MODULE TracePipeline ----------------------------
(* Direction B: validation of sessions recorded from the real PipelineContext   *)
(* objects against the guard Pre and the effect Post of Pipeline.tla.           *)
(*                                                                              *)
(* The file named by the environment variable TRACE_FILE holds one JSON record  *)
(* per public call, many traces one after the other (field tid); every record   *)
(* carries the call (a, c, s, op, args, implicit, from), whether the driver saw *)
(* the call behave (ok) and the projection of the implementation state after it:*)
(* active context, context whose operator registry is installed, number of      *)
(* symbolic circuits, per context the identity (small integers, in order of     *)
(* first sight) of the compiled object of every symbolic circuit, and the order *)
(* in which each context compiled circuits.                                     *)
(*                                                                              *)
(* A record is accepted iff Pre holds in the model state and the logged         *)
(* projection equals the projection of Post, where                              *)
(*  - object identities are compared up to a renaming that must extend the      *)
(*    renaming of the previous step (compiled objects are never replaced) and   *)
(*    be injective (never shared between circuits or contexts);                 *)
(*  - the order in which a context compiles the circuits of one call may be any *)
(*    order in which operands come first (Pipeline.tla picks one); the logged   *)
(*    order is adopted as the model state if it is admissible: append-only,     *)
(*    exactly the circuits the model compiles, each once, operands first.       *)
(* A trace is accepted iff all its records are.  One TLC step validates one     *)
(* whole trace (the run of records with the same tid).                          *)
EXTENDS Pipeline, IOUtils

(* the file is parsed once (TInit) into TLC register 1: -workers 1 *)
Trace == TLCGet(1)
Lines == Len(Trace)

VARIABLES l        \* first line of the next trace to validate
tvars == <<vars, l>>

TCtxs == {1, 2, 3}

LoggedOf(T, e, m) ==
  LET p == CHOOSE p \in AllCtx \X (1..NSof(T)) : T.comp[p[1]][p[2]] = m
  IN e.comp[p[1] + 1][p[2]]
NewIdmap(T, e) == [m \in 1..T.nobj |-> LoggedOf(T, e, m)]

ShapeOK(T, e) == /\ Len(e.comp) = Cardinality(AllCtx) /\ Len(e.order) = Cardinality(AllCtx)
                 /\ \A c \in AllCtx : Len(e.comp[c + 1]) = NSof(T)

OrderOK(S, T, e) ==
  \A c \in AllCtx :
    LET old == S.order[c]
        new == e.order[c + 1] IN
    /\ Len(new) = Len(T.order[c])
    /\ Len(new) >= Len(old) /\ SubSeq(new, 1, Len(old)) = old
    /\ {new[k] : k \in 1..Len(new)} = {T.order[c][k] : k \in 1..Len(T.order[c])}
    /\ \A k \in 1..Len(new) : new[k] \in 1..NSof(T) /\
          \A j \in 1..Len(T.syms[new[k]].args) :
             \E i \in 1..(k - 1) : new[i] = T.syms[new[k]].args[j]

(* first failing clause of record e in model state S (0 = accepted) *)
Clause(S, idm, e) ==
  IF ~e.ok THEN 1                                      \* the driver saw the call misbehave
  ELSE IF ~Pre(S, e) THEN 2                            \* the call is not enabled in the model
  ELSE LET T == Post(S, e) IN
       IF e.active # ActiveOf(T) THEN 3                \* active pipeline context
       ELSE IF e.registry # ActiveOf(T) THEN 4         \* active operator registry
       ELSE IF e.nsyms # NSof(T) \/ ~ShapeOK(T, e) THEN 5
       ELSE IF \E c \in AllCtx : \E s \in 1..NSof(T) : (e.comp[c + 1][s] = 0) # (T.comp[c][s] = 0)
            THEN 6                                     \* which circuits are compiled where
       ELSE IF ~OrderOK(S, T, e) THEN 7                \* operands first, once, append-only
       ELSE LET nm == NewIdmap(T, e) IN
            IF \E m \in 1..Len(idm) : nm[m] # idm[m] THEN 8          \* an object was replaced
            ELSE IF \E m1, m2 \in 1..T.nobj : m1 # m2 /\ nm[m1] = nm[m2] THEN 9   \* shared
            ELSE 0

Adopt(S, e) == [Post(S, e) EXCEPT !.order = [c \in AllCtx |-> e.order[c + 1]]]

RECURSIVE RunTrace(_, _, _, _)
RunTrace(S, idm, j, tid) ==
  IF j > Lines \/ Trace[j].tid # tid THEN [ok |-> TRUE, tid |-> tid, events |-> Trace[j - 1].seq, next |-> j]
  ELSE LET e == Trace[j]
           cl == Clause(S, idm, e) IN
       IF cl = 0 THEN RunTrace(Adopt(S, e), NewIdmap(Post(S, e), e), j + 1, tid)
       ELSE [ok |-> FALSE, tid |-> tid, line |-> e.seq, a |-> e.a, clause |-> cl, next |-> j]

RECURSIVE SkipFrom(_, _)
SkipFrom(j, tid) == IF j > Lines \/ Trace[j].tid # tid THEN j ELSE SkipFrom(j + 1, tid)

TInit == /\ TLCSet(1, ndJsonDeserialize(IOEnv.TRACE_FILE))
         /\ Init /\ l = 1

ValidateOne ==
  /\ l <= Lines
  /\ LET r == RunTrace(S0, <<>>, l, Trace[l].tid) IN
     /\ IF r.ok THEN PrintT(<<"ACCEPT", ToJson([tid |-> r.tid, events |-> r.events])>>)
        ELSE PrintT(<<"REJECT", ToJson([tid |-> r.tid, line |-> r.line, a |-> r.a, clause |-> r.clause])>>)
     /\ l' = SkipFrom(r.next, Trace[l].tid)
  /\ UNCHANGED vars

TraceSpec == TInit /\ [][ValidateOne]_tvars
==============================================================================
