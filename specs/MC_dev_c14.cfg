SPECIFICATION Spec
CONSTANTS
  Shapes <- c_Shapes
  MaxLeaves <- c_MaxLeaves
  MaxNodes <- c_MaxNodes
  OpSet <- c_OpSet
  LogLeaves <- c_LogLeaves
  EmitMod <- c_EmitMod
  EmitRes <- c_EmitRes
  LeafKinds <- c_LeafKinds
  PosLeaves <- c_PosLeaves
INVARIANT TypeOK
INVARIANT EmitInv
CHECK_DEADLOCK FALSE
