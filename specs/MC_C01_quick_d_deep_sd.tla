---- MODULE MC_C01_quick_d_deep_sd ----
EXTENDS CircuitSys
c_Dom == <<2, 2, 2>>
c_KSet == {2}
c_MaxL == 5
c_MaxIn == 3
c_InKindSeq == <<"emb">>
c_InnerKinds == {"had", "kron", "mix", "sum"}
c_MaxAr == 3
c_MaxOuts == 1
c_MaxOps == 0
c_OpSet == {}
c_Scheme == 1
c_OnlySD == TRUE
c_PolyDeg == 1
c_DiffK == {1}
c_J == 1
c_EmitOps == {0}
c_EmitMod == 1
c_EmitRes == 0
====
