SPECIFICATION TraceSpec
CONSTANTS
  MaxNodes = 0
  MaxAr = 0
  MaxSteps = 1
  CheckConsumers = TRUE
  CheckOutputs = TRUE
CHECK_DEADLOCK FALSE
