---- MODULE MC_C14_quick_b_compositions ----
EXTENDS ParamSys
c_Shapes == {<<2, 2>>, <<2, 3>>}
c_MaxLeaves == 2
c_MaxNodes == 4
c_OpSet == {"clamp", "conj", "exp", "had", "index", "kron", "log", "logsoftmax", "mix", "outerprod", "outersum", "polydiff", "polyprod", "rlse", "rprod", "rsum", "sigmoid", "softmax", "softplus", "square", "ssigmoid", "sum"}
c_LogLeaves == TRUE
c_EmitMod == 1200
c_EmitRes == 0
====
