-------------------------------- MODULE OptSys --------------------------------
(* Tier M (mechanism): the layer-fusion pass of the torch backend                      *)
(* (cirkit/backend/torch/graph/optimize.py: optimize_graph, match_optimization_patterns,*)
(* _prioritize_optimization_strategy; cirkit/backend/torch/compiler.py:                  *)
(* _optimize_layers, _match_layer_pattern; optimization/layers.py: the three fuse        *)
(* patterns  sum(arity 1) o sum,  sum(arity 1) o kronecker,  sum(arity 1) o hadamard).   *)
(*                                                                                       *)
(* A circuit is built node by node; Finish chooses the outputs.  Values are              *)
(* uninterpreted terms <<type, id, input values>>; a fused module applies the chain of   *)
(* the modules it replaces.  OptRefines: after at most MaxSteps passes every output of   *)
(* the optimised graph has the value of the corresponding output of the original graph.  *)
(*                                                                                       *)
(* CheckConsumers = FALSE drops the test "a non-root entry has at most one consumer"     *)
(* (seeded change C02-m1); CheckOutputs = FALSE drops the test "a non-root entry is not  *)
(* an output of the circuit" (the defect repaired by commit 081decf).  TLC returns a     *)
(* counterexample for either: the model is not vacuous.                                  *)
EXTENDS Integers, Sequences, FiniteSets, TLC

CONSTANTS MaxNodes, MaxAr, MaxSteps, CheckConsumers, CheckOutputs

VARIABLES nodes, outs, done
vars == <<nodes, outs, done>>
NN == Len(nodes)

Types == {"in", "sum", "had", "kron"}
Pat == << <<"sum", "sum">>, <<"sum", "kron">>, <<"sum", "had">> >>      \* registry order
FusedTy == <<"sum", "tucker", "cpt">>

RECURSIVE AllSeqs(_, _)
AllSeqs(n, m) == IF n = 0 THEN {<<>>} ELSE {Append(s, j) : s \in AllSeqs(n - 1, m), j \in 1..m}
SetToSeqInc(S) == LET RECURSIVE F(_)
                      F(T) == IF T = {} THEN <<>>
                              ELSE LET m == CHOOSE y \in T : \A z \in T : y <= z IN <<m>> \o F(T \ {m})
                  IN F(S)

Init == nodes = <<>> /\ outs = <<>> /\ done = FALSE
AddNode == /\ ~done /\ NN < MaxNodes
           /\ \E ty \in Types :
                IF ty = "in" THEN nodes' = Append(nodes, [ty |-> ty, chain |-> <<<<ty, NN + 1>>>>, ins |-> <<>>])
                ELSE /\ NN >= 1
                     /\ \E n \in 1..MaxAr : \E ins \in AllSeqs(n, NN) :
                          nodes' = Append(nodes, [ty |-> ty, chain |-> <<<<ty, NN + 1>>>>, ins |-> ins])
           /\ UNCHANGED <<outs, done>>
Finish == /\ ~done /\ NN >= 1
          /\ \E S \in (SUBSET (1..NN)) \ {{}} : outs' = SetToSeqInc(S)
          /\ done' = TRUE /\ UNCHANGED nodes
Next == AddNode \/ Finish
Spec == Init /\ [][Next]_vars

(* ---------- graphs: [nodes, outs]; values ---------- *)
ERR == <<"ERR", 0, <<>>>>
ApplyChain(c, xs) ==
  LET RECURSIVE A(_)
      A(k) == IF k = Len(c) THEN <<c[k][1], c[k][2], xs>> ELSE <<c[k][1], c[k][2], <<A(k + 1)>>>>
  IN A(1)
RECURSIVE ValG(_, _, _)
ValG(G, i, d) == IF i = 0 \/ d = 0 THEN ERR
                 ELSE ApplyChain(G.nodes[i].chain,
                                 [h \in 1..Len(G.nodes[i].ins) |-> ValG(G, G.nodes[i].ins[h], d - 1)])
Bad(G) == \/ \E i \in 1..Len(G.nodes) : \E h \in 1..Len(G.nodes[i].ins) : G.nodes[i].ins[h] = 0
          \/ \E o \in 1..Len(G.outs) : G.outs[o] = 0

(* ---------- out-edges (with multiplicity, in node order) and Kahn's ordering ---------- *)
OutEdges(G, i) ==
  LET N == Len(G.nodes)
      RECURSIVE F(_, _)
      F(n, h) == IF n > N THEN <<>>
                 ELSE IF h > Len(G.nodes[n].ins) THEN F(n + 1, 1)
                 ELSE (IF G.nodes[n].ins[h] = i THEN <<n>> ELSE <<>>) \o F(n, h + 1)
  IN F(1, 1)
Order(G) ==
  LET N == Len(G.nodes)
      RECURSIVE K(_, _, _)
      K(queue, ninc, acc) ==
        IF queue = <<>> THEN acc
        ELSE LET c == Head(queue)
                 oe == OutEdges(G, c)
                 RECURSIVE P(_, _, _)
                 P(k, ni, q) == IF k > Len(oe) THEN <<ni, q>>
                                ELSE LET n == oe[k]
                                         ni2 == [ni EXCEPT ![n] = @ - 1]
                                     IN P(k + 1, ni2, IF ni2[n] = 0 THEN Append(q, n) ELSE q)
                 r == P(1, ninc, Tail(queue))
             IN K(r[2], r[1], Append(acc, c))
  IN K(SetToSeqInc({n \in 1..N : G.nodes[n].ins = <<>>}), [n \in 1..N |-> Len(G.nodes[n].ins)], <<>>)

(* ---------- _match_layer_pattern + the wrapper of _optimize_layers ---------- *)
IsMatch(G, p, r) ==
  LET nd == G.nodes[r] IN
  /\ nd.ty = Pat[p][1]
  /\ Len(nd.ins) = 1                                           \* config pattern {"arity": 1}
  /\ LET e == nd.ins[1] IN
     /\ G.nodes[e].ty = Pat[p][2]
     /\ (CheckConsumers => Len(OutEdges(G, e)) <= 1)
     /\ (CheckOutputs => \A o \in 1..Len(G.outs) : G.outs[o] # e)
AllMatches(G, ord) ==        \* for pattern in registry: for module in ordering
  LET RECURSIVE F(_, _)
      F(p, k) == IF p > Len(Pat) THEN <<>>
                 ELSE IF k > Len(ord) THEN F(p + 1, 1)
                 ELSE (IF IsMatch(G, p, ord[k]) THEN <<[p |-> p, ents |-> <<ord[k], G.nodes[ord[k]].ins[1]>>]>>
                       ELSE <<>>) \o F(p, k + 1)
  IN F(1, 1)

Remove(s, x) == LET RECURSIVE F(_) F(k) == IF k > Len(s) THEN <<>> ELSE (IF s[k] = x THEN <<>> ELSE <<s[k]>>) \o F(k + 1) IN F(1)
(* _prioritize_optimization_strategy: module -> selected match index (0: none) *)
Prioritize(G, ord, ms) ==
  LET N == Len(G.nodes)
      mm0 == [m \in 1..N |-> LET RECURSIVE F(_) F(k) == IF k > Len(ms) THEN <<>>
                                    ELSE (IF \E j \in 1..Len(ms[k].ents) : ms[k].ents[j] = m THEN <<k>> ELSE <<>>) \o F(k + 1)
                             IN F(1)]
      RECURSIVE Prune(_, _, _)
      Prune(mm, rem, k) ==     \* for match in remaining: for m in match.entries: module_matches[m].remove(match)
        IF k > Len(rem) THEN mm
        ELSE Prune([m \in 1..N |-> IF \E j \in 1..Len(ms[rem[k]].ents) : ms[rem[k]].ents[j] = m
                                   THEN Remove(mm[m], rem[k]) ELSE mm[m]], rem, k + 1)
      RECURSIVE Go(_, _, _)
      Go(k, mm, sel) ==
        IF k = 0 THEN sel
        ELSE LET module == ord[k]
                 matches == mm[module] IN
             IF matches = <<>> THEN Go(k - 1, mm, sel)
             ELSE LET already == {j \in 1..Len(matches) : \E m \in 1..N : sel[m] = matches[j]}
                      pick == IF Len(matches) = 1 THEN 1
                              ELSE IF already # {} THEN CHOOSE j \in already : \A j2 \in already : j <= j2
                              ELSE 1               \* all matches have size 2: the stable sort keeps the first
                      pm == matches[pick]
                      rem == Remove(matches, pm)
                  IN Go(k - 1, Prune(mm, rem, 1), [sel EXCEPT ![module] = pm])
  IN Go(Len(ord), mm0, [m \in 1..N |-> 0])

(* ---------- optimize_graph: one pass; returns the new graph (or G if nothing matched) ---------- *)
Pass(G) ==
  LET N == Len(G.nodes)
      ord == Order(G)
      ms == AllMatches(G, ord)
      sel == Prioritize(G, ord, ms)
      RECURSIVE B(_, _, _, _, _)
      B(k, nn, exitp, entry, pos) ==
        IF k > Len(ord) THEN <<nn, exitp, pos>>
        ELSE LET module == ord[k]
                 mapin(mi) == IF sel[mi] # 0 THEN exitp[sel[mi]] ELSE pos[mi] IN
             IF sel[module] = 0
             THEN B(k + 1,
                    Append(nn, [ty |-> G.nodes[module].ty, chain |-> G.nodes[module].chain,
                                ins |-> [h \in 1..Len(G.nodes[module].ins) |-> mapin(G.nodes[module].ins[h])]]),
                    exitp, entry, [pos EXCEPT ![module] = Len(nn) + 1])
             ELSE LET mt == sel[module]
                      entry2 == IF entry[mt] = 0 THEN [entry EXCEPT ![mt] = module] ELSE entry IN
                  IF module = ms[mt].ents[1]
                  THEN LET ep == entry2[mt]
                           fused == [ty |-> FusedTy[ms[mt].p],
                                     chain |-> G.nodes[ms[mt].ents[1]].chain \o G.nodes[ms[mt].ents[2]].chain,
                                     ins |-> [h \in 1..Len(G.nodes[ep].ins) |-> mapin(G.nodes[ep].ins[h])]]
                       IN B(k + 1, Append(nn, fused), [exitp EXCEPT ![mt] = Len(nn) + 1], entry2, pos)
                  ELSE B(k + 1, nn, exitp, entry2, pos)
      r == B(1, <<>>, [j \in 1..Len(ms) |-> 0], [j \in 1..Len(ms) |-> 0], [m \in 1..N |-> 0])
  IN IF \A m \in 1..N : sel[m] = 0 THEN G
     ELSE [nodes |-> r[1],
           outs |-> [o \in 1..Len(G.outs) |-> IF sel[G.outs[o]] # 0 THEN r[2][sel[G.outs[o]]] ELSE r[3][G.outs[o]]]]

RECURSIVE Iter(_, _)
Iter(G, k) == IF k = 0 \/ Bad(G) THEN G ELSE LET H == Pass(G) IN IF H = G THEN G ELSE Iter(H, k - 1)

G0 == [nodes |-> nodes, outs |-> outs]
OptRefines ==
  done => LET H == Iter(G0, MaxSteps) IN
          /\ ~Bad(H)
          /\ Len(H.outs) = Len(outs)
          /\ \A o \in 1..Len(outs) : ValG(H, H.outs[o], MaxNodes + 1) = ValG(G0, outs[o], MaxNodes + 1)
(* "there can only be a single match per module by construction": the selected matches are disjoint, *)
(* and every entry of a selected match selects that match                                           *)
Disjoint ==
  done => LET ord == Order(G0)
              ms == AllMatches(G0, ord)
              sel == Prioritize(G0, ord, ms)
              chosen == {sel[m] : m \in 1..NN} \ {0} IN
          \A j \in chosen : \A e \in 1..Len(ms[j].ents) : sel[ms[j].ents[e]] = j
(* the ordering used by the pass is a topological ordering of all modules *)
OrderTopological ==
  done => LET ord == Order(G0) IN
          /\ Len(ord) = NN /\ {ord[k] : k \in 1..Len(ord)} = 1..NN
          /\ \A a, b \in 1..Len(ord) : (\E h \in 1..Len(nodes[ord[b]].ins) : nodes[ord[b]].ins[h] = ord[a]) => a < b
(* within MaxSteps passes the optimiser reaches a fixpoint: nothing left to fuse *)
Converges ==
  done => LET H == Iter(G0, MaxSteps) IN (~Bad(H)) => AllMatches(H, Order(H)) = <<>>
================================================================================
