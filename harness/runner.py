"""Common machinery of the checks: reports, evidence files, verdict lines, replay files."""
import json
import os
import sys
import time
from multiprocessing import Pool

from . import findings as findings_mod

VERIF = os.path.dirname(os.path.dirname(os.path.abspath(__file__)))
# development aid: evidence / replay files of runs against a scratch copy of the repository
# (VERIF_REPO) go to VERIF_OUT instead of /verif
OUT = os.environ.get("VERIF_OUT", VERIF)
NPROC = int(os.environ.get("VERIF_NPROC", "16"))


class Report:
    def __init__(self, pid, tier, seed, level="model_checking"):
        self.pid = pid
        self.tier = tier
        self.seed = seed
        self.level = level
        self.t0 = time.time()
        self.states = 0
        self.transitions = 0
        self.replayed = 0           # behaviours replayed into cirkit / traces validated
        self.evaluations = 0
        self.samples = []
        self.violations = []        # (signature, replay_path, summary)
        self.known = {}             # finding id -> (what, count)
        self.notes = []
        self.assumptions = []
        self.extra = {}
        self.tlc_runs = []
        self.machinery_errors = []
        self.findings = findings_mod.load()

    # ------------------------------------------------------------------ TLC bookkeeping
    def add_tlc(self, name, stats):
        self.states += stats.get("distinct", 0)
        self.transitions += stats.get("generated", 0)
        self.tlc_runs.append({
            "config": name, "distinct_states": stats.get("distinct"),
            "states_generated": stats.get("generated"), "depth": stats.get("depth"),
            "wall_s": round(stats.get("wall_s", 0), 1), "completed": stats.get("completed"),
            "timed_out": stats.get("timed_out"),
            "action_coverage": stats.get("action_coverage", {}),
        })

    # ------------------------------------------------------------------ failures
    def known_only(self, sig):
        """True (and counted) iff the failure signature matches a known finding."""
        f = findings_mod.classify(self.pid, sig, self.findings)
        if f is None:
            return False
        what, n = self.known.get(f["id"], (f["what"], 0))
        self.known[f["id"]] = (what, n + 1)
        return True

    def failure(self, sig, replay_obj, summary):
        """Registers one failing case: known finding or violation (writes the replay file)."""
        f = findings_mod.classify(self.pid, sig, self.findings)
        if f is not None:
            what, n = self.known.get(f["id"], (f["what"], 0))
            self.known[f["id"]] = (what, n + 1)
            return False
        d = os.path.join(OUT, "replays", self.pid)
        os.makedirs(d, exist_ok=True)
        name = replay_obj.get("hash", str(len(self.violations))) + ".json"
        path = os.path.join(d, name)
        replay_obj = dict(replay_obj)
        replay_obj["property"] = self.pid
        replay_obj["signature"] = sig
        replay_obj["rerun"] = f"./check {self.pid} --replay {os.path.relpath(path, OUT)}"
        with open(path, "w") as fo:
            json.dump(replay_obj, fo, indent=1, sort_keys=True, default=list)
        self.violations.append((sig, os.path.relpath(path, OUT), summary))
        return True

    # ------------------------------------------------------------------ finish
    def finish(self, rule, exhaustive=False):
        wall = time.time() - self.t0
        cov = {
            "states": self.states,
            "transitions": self.transitions,
            "traces_validated_against_impl": self.replayed,
            "samples": self.samples[:5] if self.samples else ["(none)"],
            "evaluations": self.evaluations,
            "rule": rule,
            "exhaustive": exhaustive,
            "tlc_runs": self.tlc_runs,
            "known_findings_hit": {k: v[1] for k, v in self.known.items()},
            "notes": self.notes,
        }
        cov.update(self.extra)
        ev = {
            "property_id": self.pid,
            "tier": self.tier,
            "seed": self.seed,
            "level": self.level,
            "coverage": cov,
            "assumptions": self.assumptions,
            "wall_s": round(wall, 2),
            "violations": len(self.violations),
        }
        os.makedirs(os.path.join(OUT, "evidence"), exist_ok=True)
        with open(os.path.join(OUT, "evidence", f"{self.pid}.json"), "w") as f:
            json.dump(ev, f, indent=1, default=list)
        for fid, (what, n) in sorted(self.known.items()):
            print(f"KNOWN-FINDING: property={self.pid} {what} [{fid}; {n} cases]")
        seen = set()
        for sig, path, summary in self.violations[:50]:
            print(f"VIOLATION property={self.pid} replay={path}")
            key = summary[:160]
            if key not in seen:
                seen.add(key)
                print(f"  {summary[:400]}")
        if len(self.violations) > 50:
            print(f"  ... {len(self.violations) - 50} more violations (replay files written)")
        print(f"[{self.pid}] tier={self.tier} seed={self.seed} states={self.states} "
              f"transitions={self.transitions} replayed={self.replayed} "
              f"evaluations={self.evaluations} violations={len(self.violations)} "
              f"known={sum(v[1] for v in self.known.values())} wall={wall:.1f}s")
        for m in self.machinery_errors[:10]:
            print("MACHINERY-ERROR:", m, file=sys.stderr)
        if self.violations:
            return 1
        return 2 if self.machinery_errors else 0


def pmap(fn, items, chunksize=8):
    if not items:
        return []
    if NPROC <= 1 or len(items) < 4:
        return [fn(x) for x in items]
    with Pool(NPROC) as p:
        return p.map(fn, items, chunksize=chunksize)
