"""C16: region-graph constructions (direction B: code -> specification).

A seeded driver calls every construction algorithm of cirkit.templates.region_graph over its valid
argument space (and a few invalid arguments, which must be rejected), records the returned graph
(regions, partitions with their parent and children, roots, the structured-decomposability flag),
its image under dump -> load, and the layer structure of circuits built from it with every layer
abstraction and with explicit sum / product factories.  specs/TraceRG.tla accepts a record iff the
graph is valid by definition, the flag matches the partitions, dump/load preserved the graph and
every circuit is smooth, decomposable, over exactly the variables, structured-decomposable whenever
the graph is, with the requested number of output units.
"""
import json
import os
import random
import tempfile
import traceback

import numpy as np
import torch

from cirkit.symbolic.layers import (
    CategoricalLayer,
    EmbeddingLayer,
    HadamardLayer,
    InputLayer,
    KroneckerLayer,
    ProductLayer,
    SumLayer,
)
from cirkit.templates.region_graph import (
    ChowLiuTree,
    FullyFactorized,
    LinearTree,
    PoonDomingos,
    QuadGraph,
    QuadTree,
    RandomBinaryTree,
    RegionGraph,
)
from cirkit.templates.region_graph.graph import PartitionNode, RegionNode

from . import runner, tlcrun


def graph_record(rg):
    regions = list(rg.region_nodes)
    ridx = {id(r): i + 1 for i, r in enumerate(regions)}
    parts = []
    for p in rg.partition_nodes:
        parents = list(rg.partition_outputs(p))
        parts.append({
            "scope": sorted(int(v) for v in p.scope),
            "nparents": len(parents),
            "parent": ridx.get(id(parents[0]), 0) if parents else 0,
            "children": [ridx[id(c)] for c in rg.partition_inputs(p)],
        })
    return {
        "regions": [sorted(int(v) for v in r.scope) for r in regions],
        "parts": parts,
        "roots": [ridx[id(r)] for r in rg.outputs],
        "sd": bool(rg.is_structured_decomposable),
    }


def circuit_record(c, K):
    layers = list(c.topological_ordering())
    idx = {id(l): i + 1 for i, l in enumerate(layers)}
    recs = []
    for sl in layers:
        kind = "in" if isinstance(sl, InputLayer) else ("sum" if isinstance(sl, SumLayer) else "prod")
        recs.append({"kind": kind, "scope": sorted(int(v) for v in c.layer_scope(sl)),
                     "ins": [idx[id(i)] for i in c.layer_inputs(sl)],
                     "units": int(sl.num_output_units)})
    return {"K": K, "layers": recs, "outs": [idx[id(o)] for o in c.outputs]}


def gen_calls(seed, n):
    """seeded list of (algo, kwargs-description) over the valid argument space"""
    rnd = random.Random(seed)
    calls = []
    shapes = [(1, 1, 1), (1, 1, 2), (1, 2, 1), (1, 2, 2), (1, 2, 3), (1, 3, 3), (1, 3, 4), (1, 4, 4),
              (1, 1, 5), (1, 5, 1), (2, 2, 2), (3, 2, 2), (1, 5, 3)]
    for k in range(n):
        a = k % 9
        if a in (0, 7):
            nv = rnd.choice([1, 2, 3, 4, 5, 7, 8, 12, 16])
            maxd = int(np.ceil(np.log2(nv))) if nv > 1 else 0
            calls.append(("RandomBinaryTree", dict(num_variables=nv,
                                                   depth=rnd.choice([None] + list(range(0, maxd + 1))),
                                                   num_repetitions=rnd.choice([1, 2, 2, 3]),
                                                   seed=rnd.randrange(1000))))
        elif a in (1, 8):
            nv = rnd.choice([1, 2, 3, 4, 6, 9])
            order = None
            if rnd.random() < 0.5:
                order = list(range(nv))
                rnd.shuffle(order)
            calls.append(("LinearTree", dict(num_variables=nv, num_repetitions=rnd.choice([1, 2, 3]),
                                             ordering=order, randomize=rnd.random() < 0.6,
                                             seed=rnd.randrange(1000))))
        elif a == 2:
            calls.append(("FullyFactorized", dict(num_variables=rnd.choice([1, 2, 3, 5, 8]),
                                                  num_repetitions=rnd.choice([1, 2, 3]))))
        elif a == 3:
            calls.append(("QuadTree", dict(shape=rnd.choice(shapes), num_patch_splits=rnd.choice([2, 4]))))
        elif a == 4:
            calls.append(("QuadGraph", dict(shape=rnd.choice(shapes))))
        elif a == 5:
            sh = rnd.choice([s for s in shapes if s[1] * s[2] <= 12])
            form = rnd.choice(["scalar", "list", "lol"])
            if form == "scalar":
                delta = rnd.choice([1, 2, 3])
            elif form == "list":
                delta = rnd.choice([[1], [2], [1, 2], [2, 3]])
            else:
                delta = rnd.choice([[[1, 1]], [[2, 1]], [[1, 2], [2, 2]], [[2, 2]]])
            calls.append(("PoonDomingos", dict(shape=sh, delta=delta,
                                               max_depth=rnd.choice([None, None, 1, 2, 3]))))
        else:
            nv = rnd.choice([2, 3, 4, 6])
            typ = rnd.choice(["categorical", "gaussian", "mixed"])
            calls.append(("ChowLiuTree", dict(nv=nv, typ=typ, root=rnd.choice([None] + list(range(nv))),
                                              data_seed=rnd.randrange(1000),
                                              chunk=rnd.choice([None, 7]))))
    return calls


INVALID = [
    ("RandomBinaryTree", dict(num_variables=0)),
    ("RandomBinaryTree", dict(num_variables=4, depth=5)),
    ("RandomBinaryTree", dict(num_variables=4, num_repetitions=0)),
    ("LinearTree", dict(num_variables=0)),
    ("LinearTree", dict(num_variables=3, ordering=[0, 1, 1])),
    ("LinearTree", dict(num_variables=3, num_repetitions=0)),
    ("FullyFactorized", dict(num_variables=0)),
    ("FullyFactorized", dict(num_variables=2, num_repetitions=0)),
    ("QuadTree", dict(shape=(1, 2, 2), num_patch_splits=3)),
]

ALGOS = {"RandomBinaryTree": RandomBinaryTree, "LinearTree": LinearTree,
         "FullyFactorized": FullyFactorized, "QuadTree": QuadTree, "QuadGraph": QuadGraph,
         "PoonDomingos": PoonDomingos}


def call_algo(algo, kw):
    if algo == "ChowLiuTree":
        g = torch.Generator().manual_seed(kw["data_seed"])
        nv = kw["nv"]
        n = 60
        if kw["typ"] == "categorical":
            base = torch.randint(0, 3, (n, 1), generator=g)
            data = (base + torch.randint(0, 2, (n, nv), generator=g)) % 3
            return ChowLiuTree(data, input_type="categorical", root=kw["root"], num_categories=3,
                               chunk_size=kw["chunk"]), nv
        if kw["typ"] == "gaussian":
            base = torch.randn(n, 1, generator=g)
            data = base + 0.5 * torch.randn(n, nv, generator=g)
            return ChowLiuTree(data, input_type="gaussian", root=kw["root"], chunk_size=kw["chunk"]), nv
        base = torch.randn(n, 1, generator=g)
        cont = base + 0.5 * torch.randn(n, nv, generator=g)
        types = ["categorical" if v % 2 == 0 else "gaussian" for v in range(nv)]
        data = cont.clone()
        for v in range(nv):
            if types[v] == "categorical":
                data[:, v] = (cont[:, v] > 0).to(cont.dtype)
        return ChowLiuTree(data, input_type=types, root=kw["root"], num_categories=2,
                           chunk_size=kw["chunk"]), nv
    rg = ALGOS[algo](**{k: v for k, v in kw.items()})
    if "shape" in kw:
        nv = kw["shape"][0] * kw["shape"][1] * kw["shape"][2]
    else:
        nv = kw["num_variables"]
    return rg, nv


def build_circuits(rg, h):
    """circuits from every layer abstraction (and explicit factories) for one or two unit settings"""
    out = []
    max_ar = max([len(list(rg.partition_inputs(p))) for p in rg.partition_nodes] + [1])

    def inp(scope, num_units):
        return CategoricalLayer(scope, num_units, num_categories=2)

    def sumf(nin, nout):
        return SumLayer(nin, nout)

    def prodf(nin, arity):
        return HadamardLayer(nin, arity=arity)

    def prodk(nin, arity):
        return KroneckerLayer(nin, arity=arity)

    settings = [(1, 1, 1), (2, 2, 1), (2, 3, 2)][: 2 + (h % 2)]
    for (ki, ks, kc) in settings:
        for sp in ("cp", "cp-t", "tucker"):
            if sp in ("cp-t", "tucker") and ki != ks:
                continue                     # these abstractions require equal unit counts
            if sp == "tucker" and ks ** max_ar > 64:
                continue
            c = rg.build_circuit(input_factory=inp, sum_product=sp, num_input_units=ki,
                                 num_sum_units=ks, num_classes=kc)
            out.append(circuit_record(c, kc))
        if ki == ks:
            c = rg.build_circuit(input_factory=inp, sum_factory=sumf, prod_factory=prodf,
                                 num_input_units=ki, num_sum_units=ks, num_classes=kc)
            out.append(circuit_record(c, kc))
            if ks ** max_ar <= 64 and ks == 1:
                c = rg.build_circuit(input_factory=inp, sum_factory=sumf, prod_factory=prodk,
                                     num_input_units=ki, num_sum_units=ks, num_classes=kc)
                out.append(circuit_record(c, kc))
    return out


def record_call(args):
    tid, algo, kw, invalid, workdir = args
    rec = {"tid": tid, "algo": algo, "kind": "invalid" if invalid else "valid", "ok": True,
           "nvars": 0, "regions": [], "parts": [], "roots": [], "sd": True,
           "reload": {"regions": [], "parts": [], "roots": [], "sd": True}, "circuits": [],
           "args": json.dumps(kw, default=str)}
    try:
        if invalid:
            try:
                call_algo(algo, kw)
                rec["ok"] = False
                rec["why"] = "invalid arguments were accepted"
            except (ValueError, AssertionError, IndexError) as e:
                rec["ok"] = True
            return rec
        rg, nv = call_algo(algo, kw)
        rec["nvars"] = nv
        rec.update(graph_record(rg))
        path = os.path.join(workdir, f"rg_{os.getpid()}_{tid}.json")
        rg.dump(path)
        rg2 = RegionGraph.load(path)
        os.remove(path)
        rec["reload"] = graph_record(rg2)
        rec["circuits"] = build_circuits(rg, tid)
    except Exception as e:  # pylint: disable=broad-except
        rec["ok"] = False
        rec["why"] = repr(e)[:300] + " | " + traceback.format_exc()[-400:]
    return rec


def run(pid, tier, seed, rule, assumptions):
    rep = runner.Report(pid, tier, seed)
    rep.assumptions = assumptions
    q = tier == "quick"
    n = 840 if q else 8400
    calls = gen_calls(seed, n)
    os.makedirs(tlcrun.WORK, exist_ok=True)
    jobs = [(k + 1, a, kw, False, tlcrun.WORK) for k, (a, kw) in enumerate(calls)]
    jobs += [(len(calls) + k + 1, a, kw, True, tlcrun.WORK) for k, (a, kw) in enumerate(INVALID)]
    recs = runner.pmap(record_call, jobs, chunksize=2)
    validate(rep, recs, pid, tier, "TraceRG.tla", "TraceRG.cfg")
    algos = {}
    for r in recs:
        algos[r["algo"]] = algos.get(r["algo"], 0) + 1
    rep.extra["calls_per_algorithm"] = algos
    rep.extra["circuits_recorded"] = sum(len(r["circuits"]) for r in recs)
    return rep.finish(rule, exhaustive=False)


def validate(rep, recs, pid, tier, module, cfgfile):
    os.makedirs(tlcrun.WORK, exist_ok=True)
    path = os.path.join(tlcrun.WORK, f"trace_{pid}_{tier}_{os.getpid()}.ndjson")
    with open(path, "w") as f:
        for r in recs:
            f.write(json.dumps({k: v for k, v in r.items() if k not in ("why", "args")}) + "\n")
    try:
        pay, stats = tlcrun.run_tlc(module, cfgfile, f"trace_{pid}", workers=1, timeout=3000,
                                    coverage=False, env_extra={"TRACE_FILE": path})
    except tlcrun.TLCError as e:
        rep.machinery_errors.append(str(e)[-1500:])
        return
    finally:
        if os.path.exists(path):
            os.remove(path)
    rep.add_tlc("trace_validation", stats)
    accepted = {int(x["tid"]) for x in pay["ACCEPT"]}
    rejected = {int(x["tid"]): x for x in pay["REJECT"]}
    if len(accepted) + len(rejected) != len(recs):
        rep.machinery_errors.append(f"verdicts {len(accepted)}+{len(rejected)} != {len(recs)} records; "
                                    + stats.get("tail", "")[-600:])
    rep.replayed += len(accepted) + len(rejected)
    rep.evaluations += len(recs)
    by_tid = {r["tid"]: r for r in recs}
    for tid, x in sorted(rejected.items()):
        r = by_tid[tid]
        sig = {"kind": "trace_rejected", "algo": r["algo"], "clause": int(x["clause"]),
               "record_kind": r.get("kind")}
        rep.failure(sig, {"hash": f"{pid}_trace{tid}_{rep.seed}", "engine": "trace", "record": r,
                          "rejected": x},
                    f"{r['algo']}({r.get('args')}) rejected by clause {x['clause']} "
                    f"{r.get('why', '')[:300]}")
    for r in recs:
        if r.get("kind") != "invalid" and r["ok"] and len(rep.samples) < 3:
            if "regions" in r:
                rep.samples.append({"algo": r["algo"], "args": r.get("args"),
                                    "regions": r["regions"][:8], "parts": r["parts"][:4],
                                    "roots": r["roots"], "sd": r["sd"],
                                    "n_circuits": len(r["circuits"])})
            else:
                rep.samples.append({k: r.get(k) for k in ("algo", "args", "shape", "obs", "flags")})


def replay_file(path, pid):
    with open(path) as f:
        obj = json.load(f)
    print("recorded call (direction B):", json.dumps(obj.get("record", {}))[:1500])
    print("rejected:", obj.get("rejected"))
    print(f"VIOLATION property={pid} replay={path}")
    return 1
