"""Replay of CircuitSys behaviours (direction A: specification -> code) for the semantic
properties: every circuit of the pool is compiled under a set of flag combinations, loaded with the
model's store through the registry slices, evaluated on all assignments (several batch shapes) and
compared with the table TLC computed from the Tier-R semantics.
"""
import hashlib
import json
import traceback

import numpy as np
import torch

from cirkit.backend.torch.compiler import TorchCompiler

from . import adapter
from .adapter import ALL_FLAGS, Built, Refused, close, expected_array, to_linear


def beh_hash(beh):
    return hashlib.sha1(json.dumps(beh, sort_keys=True).encode()).hexdigest()[:16]


def pick_flags(beh, tier, h):
    """quick: a hash-rotated subset of the 12 flag combinations (always (F,F) and (T,T) of the
    rotating semiring); thorough: all of them."""
    if tier == "thorough":
        return list(ALL_FLAGS)
    sems = adapter.SEMIRINGS
    s0 = sems[h % 3]
    s1 = sems[(h // 3 + 1) % 3]
    f1 = bool((h // 9) % 2)
    out = [(s0, False, False), (s0, True, True), (s1, f1, not f1), ("sum-product", True, bool(h % 2))]
    return list(dict.fromkeys(out))


def admissible(flags, built):
    sem = flags[0]
    if sem == "lse-sum" and (built.has_complex or not built.nonneg):
        return False
    return True


def fold_counts(cc):
    fs = set()
    for l in cc.layers:
        nf = getattr(l, "num_folds", 1)
        if nf > 1:
            fs.add(nf)
    return sorted(fs)


def kinds_of(beh):
    return sorted({l["kind"] for l in beh["layers"]})


def replay(beh, tier="quick", seed=0, targets=None, check_rows=True):
    """Returns a dict: {"hash", "evals", "failures": [...], "refused": n, "tags": [...]}.
    targets: set of operator names whose pool entries are compared (None = all entries;
    "base" selects the base circuit)."""
    h = int(beh_hash(beh), 16) + seed
    rho = adapter.RHOS[h % len(adapter.RHOS)]
    res = {"hash": beh_hash(beh), "evals": 0, "failures": [], "refused": 0, "tags": set(),
           "rho": list(rho)}
    try:
        built = Built(beh, rho)
        pool = built.apply_ops()
    except Exception as e:  # pylint: disable=broad-except
        res["failures"].append({"kind": "build_raise", "detail": repr(e),
                                "trace": traceback.format_exc()[-800:]})
        res["tags"] = sorted(res["tags"])
        return res
    ops = ["base"] + [t["op"] for t in beh["ops"]]
    for i, c in enumerate(pool):
        if isinstance(c, Refused):
            res["refused"] += 1
            res.setdefault("refusals", []).append({"pool": i, "op": ops[i], "exc": str(c)[:200]})
    rows = built.assignments()
    for flags in pick_flags(beh, tier, h):
        if not admissible(flags, built):
            continue
        sem, fold, opt = flags
        compiler = TorchCompiler(semiring=sem, fold=fold, optimize=opt)
        compiled = {}
        bad = False
        for i, c in enumerate(pool):
            if isinstance(c, Refused):
                continue
            try:
                compiled[i] = compiler.compile(c)
            except Exception as e:  # pylint: disable=broad-except
                res["failures"].append({"kind": "compile_raise", "flags": list(flags), "pool": i,
                                        "op": ops[i], "detail": repr(e)[:300]})
                bad = True
        try:
            built.load_store(compiler)
        except Exception as e:  # pylint: disable=broad-except
            res["failures"].append({"kind": "registry_raise", "flags": list(flags),
                                    "detail": repr(e)[:300]})
            continue
        for i, cc in compiled.items():
            if targets is not None and ops[i] not in targets:
                continue
            exp = beh["expect"][i]
            # batch shapes: all rows; B = 1; B = each fold count; a permutation
            batches = [("all", list(range(len(rows))))]
            if check_rows:
                batches.append(("one", [h % len(rows)]))
                for F in fold_counts(cc)[:3]:
                    batches.append((f"B=F={F}", [(h + q) % len(rows) for q in range(F)]))
                batches.append(("perm", list(reversed(range(len(rows))))))
            for bname, ridx in batches:
                x = built.batch([rows[q] for q in ridx], floating=None if h % 2 else True)
                try:
                    out = cc(x)
                except Exception as e:  # pylint: disable=broad-except
                    res["failures"].append({"kind": "eval_raise", "flags": list(flags), "pool": i,
                                            "op": ops[i], "batch": bname, "B": len(ridx),
                                            "detail": repr(e)[:300]})
                    continue
                res["evals"] += 1
                obs = to_linear(out, sem)
                want = expected_array(exp, ridx)
                if not exp["scope"] and len(ridx) == 1 and obs.ndim == 2:
                    # documented convention: a circuit with empty scope drops a batch dimension
                    # of size one and returns (outputs, units)
                    obs = obs[None]
                if obs.shape != want.shape:
                    res["failures"].append({"kind": "shape", "flags": list(flags), "pool": i,
                                            "op": ops[i], "batch": bname, "B": len(ridx),
                                            "detail": f"observed {obs.shape} expected {want.shape}"})
                elif not close(obs, want):
                    res["failures"].append({"kind": "value", "flags": list(flags), "pool": i,
                                            "op": ops[i], "batch": bname, "B": len(ridx),
                                            "nan": bool(np.isnan(obs).any()),
                                            "ok_where_finite": bool(close(
                                                np.where(np.isnan(obs), want, obs), want)),
                                            "detail": f"observed {obs.tolist()} expected {want.tolist()}"[:600]})
            for l in cc.layers:
                res["tags"].add(type(l).__name__ + (":folded" if getattr(l, "num_folds", 1) > 1 else ""))
    res["tags"] = sorted(res["tags"])
    return res


def worker(args):
    beh, tier, seed, targets = args
    torch.manual_seed(seed)
    try:
        return replay(beh, tier, seed, targets)
    except Exception as e:  # pylint: disable=broad-except
        return {"hash": beh_hash(beh), "evals": 0, "refused": 0, "tags": [],
                "failures": [{"kind": "harness_error", "detail": repr(e),
                              "trace": traceback.format_exc()[-1500:]}]}
