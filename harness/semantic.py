"""Replay of CircuitSys behaviours (direction A: specification -> code) for the semantic
properties.  Every circuit of the pool is compiled in ONE compiler per flag combination (derived
circuits share the compiled tensors of their operands), loaded with the model's store through the
registry slices, and then

  * evaluated on all assignments in several batch shapes and compared with the table TLC computed
    from the Tier-R semantics (C01, C02, C03-C07),
  * driven through the run-phase history (update / reset / save / load / reload / eval) with the
    tables of every pool entry compared at every eval step (C10, C19, C02 addressability, C17),
  * differentiated by autograd and compared with TLC's exact partial derivatives (C13),
  * queried for per-row marginals and compared with TLC's marginal tables (C11).
"""
import copy
import hashlib
import json
import traceback

import numpy as np
import torch

from cirkit.backend.torch.compiler import TorchCompiler
from cirkit.backend.torch.queries import IntegrateQuery
from cirkit.symbolic.circuit import StructuralPropertyError
from cirkit.utils.scope import Scope

from . import adapter, nums
from .adapter import ALL_FLAGS, Built, Refused, close, expected_array, to_linear


def beh_hash(beh):
    return hashlib.sha1(json.dumps(beh, sort_keys=True).encode()).hexdigest()[:16]


def pick_flags_fo4(h, built):
    """the four fold x optimize combinations of one (hash-rotated, admissible) semiring"""
    sems = [s for s in adapter.SEMIRINGS if admissible((s, False, False), built)]
    s0 = sems[h % len(sems)]
    return [(s0, f, o) for f in (False, True) for o in (False, True)]


def pick_flags(tier, h, nflags=4):
    """quick: a hash-rotated subset of the 12 flag combinations (always (F,F) and (T,T) of the
    rotating semiring); thorough: all of them."""
    if tier == "thorough":
        return list(ALL_FLAGS)
    sems = adapter.SEMIRINGS
    s0 = sems[h % 3]
    s1 = sems[(h // 3 + 1) % 3]
    f1 = bool((h // 9) % 2)
    out = [(s0, False, False), (s0, True, True), (s1, f1, not f1),
           ("sum-product", True, bool(h % 2)),
           ("complex-lse-sum", bool(h % 2), bool((h // 2) % 2))]
    return list(dict.fromkeys(out))


def admissible(flags, built):
    sem = flags[0]
    if sem == "lse-sum" and (built.has_complex or not built.nonneg):
        return False
    if sem == "sum-product" and built.has_complex:
        return False          # the linear semiring is real-valued: it rejects complex tensors
    return True


def fold_counts(cc):
    fs = set()
    for l in cc.layers:
        nf = getattr(l, "num_folds", 1)
        if nf > 1:
            fs.add(nf)
    return sorted(fs)


def op_names(beh):
    return ["base"] * len(beh["bases"]) + [t["op"] for t in beh["ops"]]


class Session:
    """One compiler (one flag combination) with every pool entry compiled in it."""

    def __init__(self, built, pool, flags, res, ops, nb=None, no_grad=False):
        self.built = built
        self.pool = pool
        self.flags = flags
        self.res = res
        self.ops = ops
        self.no_grad = no_grad
        sem, fold, opt = self.flags
        self.compiler = TorchCompiler(semiring=sem, fold=fold, optimize=opt)
        self.compiled = {}
        # the base circuits first; the derived circuits are compiled later (compile_rest), after
        # the base circuits have also been compiled in the other compilers of this replay
        self.compile_some(range(len(pool)) if nb is None else range(nb))

    def fail(self, kind, **kw):
        d = {"kind": kind, "flags": list(self.flags)}
        d.update(kw)
        self.res["failures"].append(d)

    def compile_rest(self):
        self.compile_some(i for i in range(len(self.pool)) if i not in self.compiled)

    def compile_all(self):
        sem, fold, opt = self.flags
        self.compiler = TorchCompiler(semiring=sem, fold=fold, optimize=opt)
        self.compiled = {}
        self.compile_some(range(len(self.pool)))

    def compile_some(self, indices):
        for i in indices:
            c = self.pool[i]
            if isinstance(c, Refused) or i in self.compiled:
                continue
            try:
                self.compiled[i] = self.compiler.compile(c)
            except Exception as e:  # pylint: disable=broad-except
                self.fail("compile_raise", pool=i, op=self.ops[i], detail=repr(e)[:300])

    def compare(self, i, table, rows, ridx, bname, floating, step=None):
        cc = self.compiled[i]
        sem = self.flags[0]
        x = self.built.batch([rows[q] for q in ridx], floating=floating)
        try:
            if self.no_grad:
                with torch.no_grad():
                    out = cc(x)
            else:
                out = cc(x)
        except Exception as e:  # pylint: disable=broad-except
            self.fail("eval_raise", pool=i, op=self.ops[i], batch=bname, B=len(ridx), step=step,
                      detail=repr(e)[:300])
            return None
        self.res["evals"] += 1
        obs = to_linear(out, sem)
        want = expected_array(table, ridx)
        if obs.ndim == 2 and not self.built.beh["expect"][i].get("scope", [0]):
            # documented convention: a circuit with empty scope computes a constant tensor and
            # drops the batch dimension (which is 1)
            obs = np.broadcast_to(obs[None], (len(ridx),) + obs.shape)
        if obs.shape != want.shape:
            self.fail("shape", pool=i, op=self.ops[i], batch=bname, B=len(ridx), step=step,
                      detail=f"observed {obs.shape} expected {want.shape}")
        elif not close(obs, want):
            self.fail("value", pool=i, op=self.ops[i], batch=bname, B=len(ridx), step=step,
                      nan=bool(np.isnan(obs).any()),
                      detail=f"observed {obs.tolist()} expected {want.tolist()}"[:600])
        return out


def replay(beh, tier="quick", seed=0, opts=None):
    """Returns {"hash", "evals", "failures": [...], "refused", "tags", ...}."""
    opts = opts or {}
    targets = opts.get("targets")
    h = int(beh_hash(beh), 16) + seed
    rho = adapter.RHOS[h % len(adapter.RHOS)]
    if opts.get("sample"):
        rho = adapter.RHOS[0]       # sampling returns one column per variable of scopes 0..D-1
    res = {"hash": beh_hash(beh), "evals": 0, "failures": [], "refused": 0, "tags": set(),
           "rho": list(rho), "notes": []}
    hist = beh.get("hist") or []
    has_reset = any(s["a"] == "reset" for s in hist)
    init = "const" if (has_reset or opts.get("init") == "const" or (hist and h % 2)) else "random"
    res["init"] = init
    freeze = (1 + h % 3) if opts.get("freeze") and h % 2 else 0
    res["freeze"] = freeze
    try:
        built = Built(beh, rho, init=init, freeze=freeze)
        pool = built.apply_ops()
    except Exception as e:  # pylint: disable=broad-except
        res["failures"].append({"kind": "build_raise", "detail": repr(e),
                                "trace": traceback.format_exc()[-800:]})
        res["tags"] = sorted(res["tags"])
        return res
    ops = op_names(beh)
    nb = len(beh["bases"])
    # ---- operator outcomes against the contract
    for i, c in enumerate(pool):
        exp = beh["expect"][i]
        pre = exp.get("pre", "ok")
        if isinstance(c, Refused):
            if c.dependent:
                continue
            res["refused"] += 1
            res.setdefault("refusals", []).append({"pool": i, "op": ops[i], "exc": str(c)[:200]})
            if pre == "ok":
                res["failures"].append({"kind": "unexpected_refusal", "pool": i, "op": ops[i],
                                        "detail": str(c)[:300]})
            elif pre == "struct" and not isinstance(c.exc, StructuralPropertyError):
                res["failures"].append({"kind": "wrong_exception", "pool": i, "op": ops[i],
                                        "detail": str(c)[:300]})
        elif pre in ("struct", "value", "raise"):
            res["failures"].append({"kind": "missing_refusal", "pool": i, "op": ops[i],
                                    "detail": f"expected outcome class {pre}, a circuit was returned"})
        elif "scope" in exp:
            want_scope = sorted(built.ids[v - 1] for v in exp["scope"])
            if sorted(c.scope) != want_scope:
                res["failures"].append({"kind": "scope", "pool": i, "op": ops[i],
                                        "detail": f"scope {sorted(c.scope)} expected {want_scope}"})
            if len(list(c.outputs)) != exp["nouts"]:
                res["failures"].append({"kind": "nouts", "pool": i, "op": ops[i],
                                        "detail": f"{len(list(c.outputs))} outputs, expected {exp['nouts']}"})
    rows = built.assignments()
    floating = None if h % 2 else True
    flag_list = pick_flags(tier, h)
    if tier != "thorough" and opts.get("flagset") == "fo4":
        flag_list = pick_flags_fo4(h, built)
    flag_list = [f for f in flag_list if admissible(f, built)]
    if tier != "thorough":
        flag_list = flag_list[:opts.get("nflags", 4)]
    # one compiler per flag combination; every compiler first compiles the base circuits, only
    # then the derived circuits are compiled (each in its own compiler): a derived circuit must
    # read the tensors of its operands as compiled in ITS compiler
    sessions = [Session(built, pool, flags, res, ops, nb=nb, no_grad=bool(hist) and (h + k) % 2 == 0)
                for k, flags in enumerate(flag_list)]
    for k, ses in enumerate(sessions):
        ses.compile_rest()
        ses.eval_mode = bool(hist) and (h // 2 + k) % 2 == 0
        if ses.eval_mode:
            for cc in ses.compiled.values():
                cc.eval()
    for ses in sessions:
        flags = ses.flags
        sem = flags[0]
        # ---------------- initial values
        if init == "const" and hist:
            pass          # the constant initialisers must already hold version 1 (C17)
        else:
            try:
                built.load_store(ses.compiler)
            except Exception as e:  # pylint: disable=broad-except
                ses.fail("registry_raise", detail=repr(e)[:300])
                continue
        if opts.get("addressable"):
            check_addressable(ses, built)
        if not hist:
            for i in ses.compiled:
                exp = beh["expect"][i]
                if "table" not in exp:
                    continue
                cc = ses.compiled[i]
                batches = [("all", list(range(len(rows))))]
                if opts.get("rows", True):
                    batches.append(("one", [h % len(rows)]))
                    for F in fold_counts(cc)[:3]:
                        batches.append((f"B=F={F}", [(h + q) % len(rows) for q in range(F)]))
                    batches.append(("perm", list(reversed(range(len(rows))))))
                for bname, ridx in batches:
                    ses.compare(i, exp["table"], rows, ridx, bname, floating)
                for l in cc.layers:
                    res["tags"].add(type(l).__name__
                                    + (":folded" if getattr(l, "num_folds", 1) > 1 else ""))
            if opts.get("grads") and beh.get("grads"):
                check_grads(ses, beh, built, rows, floating, targets)
            if opts.get("grads") and beh.get("xgrads") and floating:
                check_xgrads(ses, beh, built, rows)
            if opts.get("query") and beh.get("qtables"):
                check_queries(ses, beh, built, rows, h)
            if opts.get("sample"):
                check_sampling(ses, beh, built, rows, h, tier)
        else:
            run_history(ses, beh, built, rows, floating, h, targets)
    res["tags"] = sorted(res["tags"])
    return res


# ---------------------------------------------------------------------------------- histories
def state_dicts(ses):
    return {i: copy.deepcopy(cc.state_dict()) for i, cc in ses.compiled.items()}


def check_state_dict(ses, i, nb):
    """every learnable tensor exactly once (base circuits: bijection; derived: at least once)"""
    cc = ses.compiled[i]
    sd = cc.state_dict()
    ptrs = [t.data_ptr() for t in sd.values() if t.numel() > 0]
    params = [p for p in cc.parameters() if p.numel() > 0]
    pset = {p.data_ptr() for p in params}
    missing = [p.shape for p in params if p.data_ptr() not in set(ptrs)]
    if missing:
        ses.fail("state_dict_missing", pool=i, op=ses.ops[i], detail=f"learnable tensors not in state_dict: {missing}")
    if i < nb:
        par_ptrs = [q for q in ptrs if q in pset]
        if len(par_ptrs) != len(set(par_ptrs)):
            ses.fail("state_dict_duplicate", pool=i, op=ses.ops[i],
                     detail="a learnable tensor appears more than once in state_dict")


def run_history(ses, beh, built, rows, floating, h, targets):
    nb = len(beh["bases"])
    saved = None
    allr = list(range(len(rows)))
    for n, step in enumerate(beh["hist"]):
        a = step["a"]
        try:
            if a == "update":
                i = step["i"] - 1
                if i in built.leaves and ses.compiler.state.has_compiled_parameter(built.leaves[i].tensor):
                    built.write_leaf(ses.compiler, i, step["v"], how="sgd" if (h + n) % 2 else "copy")
            elif a == "reset":
                for b in range(nb):
                    if b in ses.compiled:
                        ses.compiled[b].reset_parameters()
            elif a == "save":
                saved = state_dicts(ses)
                for i in ses.compiled:
                    check_state_dict(ses, i, nb)
            elif a == "load":
                for i, cc in ses.compiled.items():
                    cc.load_state_dict(saved[i])
            elif a == "reload":
                old = ses.compiled
                ses.compile_all()
                for i, cc in ses.compiled.items():
                    if i in old and old[i] is cc:
                        ses.fail("reload_same_object", pool=i, op=ses.ops[i], step=n,
                                 detail="a fresh compiler returned the old compiled circuit")
                    if getattr(ses, "eval_mode", False):
                        # a fresh instance used for inference before the parameters are loaded
                        cc.eval()
                        try:
                            with torch.no_grad():
                                cc(built.batch([rows[0]], floating=floating))
                        except Exception:  # pylint: disable=broad-except
                            pass
                    cc.load_state_dict(saved[i])
            elif a == "eval":
                for i in ses.compiled:
                    tab = step["expect"][i]
                    if not tab:
                        continue
                    ses.compare(i, tab, rows, allr, "all", floating, step=n)
        except Exception as e:  # pylint: disable=broad-except
            ses.fail("history_raise", step=n, action=a, detail=repr(e)[:300])
            return


# ---------------------------------------------------------------------------------- registry
def check_addressable(ses, built):
    """every symbolic tensor = exactly one slice of exactly one compiled tensor, slices disjoint"""
    seen = {}
    for i, leaf in built.leaves.items():
        st = ses.compiler.state
        if not st.has_compiled_parameter(leaf.tensor):
            continue
        t, idx = st.retrieve_compiled_parameter(leaf.tensor)
        try:
            ten = t()
        except Exception as e:  # pylint: disable=broad-except
            ses.fail("registry_slice", detail=f"leaf {i}: the compiled tensor the registry points to "
                                              f"is not usable: {e!r}"[:300])
            continue
        nf = ten.shape[0]
        if not 0 <= idx < nf:
            ses.fail("registry_slice", detail=f"leaf {i}: fold index {idx} outside 0..{nf - 1}")
            continue
        if tuple(ten[idx].shape) != tuple(leaf.shape):
            ses.fail("registry_slice", detail=f"leaf {i}: slice shape {tuple(ten[idx].shape)} "
                                              f"!= symbolic shape {tuple(leaf.shape)}")
        if bool(ten.requires_grad) != bool(leaf.learnable):
            ses.fail("requires_grad", detail=f"leaf {i}: learnable={leaf.learnable} but the compiled "
                                             f"tensor has requires_grad={bool(ten.requires_grad)}")
        key = (ten.data_ptr(), idx)
        if key in seen:
            ses.fail("registry_alias", detail=f"leaves {seen[key]} and {i} map to the same slice")
        seen[key] = i


# ---------------------------------------------------------------------------------- gradients
def check_grads(ses, beh, built, rows, floating, targets):
    """autograd d out[q,o,u] / d theta against TLC's exact partials (jets), mapped through the
    registry slice of the symbolic tensor that holds theta and through the leaf's chart."""
    sem = ses.flags[0]
    x = built.batch(rows, floating=floating)
    outs = {}
    nb = len(beh["bases"])
    # rows at which some input unit is exactly zero: in the log-space semirings such a unit is
    # represented by log 0, where the representation (not the function) is not differentiable;
    # the equality clause is evaluated on the other rows (DESIGN.md, C13 scope note)
    zrows = set()
    if sem != "sum-product":
        zrows = zero_rows(beh, rows) | {q for q, z in enumerate(beh.get("zerorows") or []) if z}
    keep = np.array([q not in zrows for q in range(len(rows))])
    for g in beh["grads"]:
        li, u, j = g["th"]
        leaf = built.leaves[li - 1]
        if leaf.cplx:
            continue
        st = ses.compiler.state
        if not st.has_compiled_parameter(leaf.tensor):
            continue
        t, idx = st.retrieve_compiled_parameter(leaf.tensor)
        ten = t()
        if not leaf.learnable:
            if ten.requires_grad:
                ses.fail("requires_grad", detail=f"frozen leaf {li}: the compiled tensor requires grad")
            continue
        if not ten.requires_grad:
            ses.fail("requires_grad", detail=f"leaf {li} is learnable but its compiled tensor does not "
                                             f"require grad")
            continue
        pos = (u - 1,) if len(leaf.shape) == 1 else (u - 1, j - 1)
        w = leaf.linear(1)[pos].real
        chart = w if leaf.kind in adapter.LOG_KINDS else 1.0
        for i, cc in ses.compiled.items():
            dtab = g["d"][i]
            if not dtab or (targets is not None and ses.ops[i] not in targets):
                continue
            if leaf.kind == "catp" and i >= nb:
                # a probability-parameterised categorical is normalised by definition: its
                # integral is the constant 1, not the sum of the (unconstrained) entries
                continue
            if i not in outs:
                try:
                    outs[i] = cc(x)
                except Exception:  # pylint: disable=broad-except
                    outs[i] = None
            out = outs[i]
            if out is None:
                continue
            want = expected_array(dtab, list(range(len(rows)))) * chart
            f = expected_array(beh["expect"][i]["table"], list(range(len(rows))))
            obs = np.zeros(want.shape, dtype=np.complex128)
            bad = False
            flat = out.reshape(-1)
            for k in range(flat.numel()):
                parts = [flat[k].real, flat[k].imag] if flat.is_complex() else [flat[k]]
                val = 0j
                for pi, part in enumerate(parts):
                    if not part.requires_grad:
                        continue
                    gr = torch.autograd.grad(part, ten, retain_graph=True, allow_unused=True)[0]
                    if gr is None:
                        continue
                    gv = gr[idx][pos].item()
                    val += gv * (1j if pi == 1 else 1.0)
                obs.reshape(-1)[k] = val
            ses.res["evals"] += 1
            if obs.shape != want.shape:
                bad = True
            if sem != "sum-product":
                # out = log f  =>  d out = f'/f ; compare f' = d out * f where f != 0
                nz = (np.abs(f) > 0) & keep[:, None, None]
                if not np.all(np.isfinite(obs[np.abs(f) > 0])):
                    ses.fail("grad_nonfinite", pool=i, op=ses.ops[i], th=g["th"],
                             detail=f"non-finite gradient where the value is non-zero: {obs.tolist()}"[:400])
                    continue
                with np.errstate(invalid="ignore"):
                    obs_lin = np.where(nz, obs * f, want)
            else:
                obs_lin = obs
                if not np.all(np.isfinite(obs)):
                    ses.fail("grad_nonfinite", pool=i, op=ses.ops[i], th=g["th"],
                             detail=f"non-finite gradient: {obs.tolist()}"[:400])
                    continue
            if bad or not close(obs_lin, want, rtol=1e-8):
                ses.fail("grad_value", pool=i, op=ses.ops[i], th=g["th"],
                         detail=f"observed {obs_lin.tolist()} expected {want.tolist()}"[:600])


def check_xgrads(ses, beh, built, rows):
    """autograd d out[q,o,u] / d x[q,v] of base circuit 1 against TLC's exact first partials
    (the denotation of differentiate(c, 1)); variables outside an output's scope have gradient 0."""
    sem = ses.flags[0]
    cc = ses.compiled.get(0)
    if cc is None:
        return
    xg = beh["xgrads"][0]
    scopes = xg["scopes"]
    x = built.batch(rows, floating=True).clone().requires_grad_(True)
    try:
        out = cc(x)
    except Exception as e:  # pylint: disable=broad-except
        ses.fail("eval_raise", pool=0, op=ses.ops[0], detail="input requiring grad: " + repr(e)[:300])
        return
    want = expected_array(xg["table"], list(range(len(rows))))          # (B, sum(|scope_o| + 1), K)
    f = expected_array(beh["expect"][0]["table"], list(range(len(rows))))
    zrows = set()
    if sem != "sum-product":
        zrows = {q for q, z in enumerate(beh.get("zerorows") or []) if z}
    keep = np.array([q not in zrows for q in range(len(rows))])
    if tuple(out.shape) != f.shape:
        ses.fail("shape", pool=0, op=ses.ops[0], detail=f"output shape {tuple(out.shape)} expected {f.shape}")
        return
    V = x.shape[1]
    p = 0
    for o, sc in enumerate(scopes):
        for u in range(out.shape[2]):
            val = out[:, o, u]
            parts = [val.real, val.imag] if val.is_complex() else [val]
            d = np.zeros((len(rows), V), dtype=np.complex128)
            for pi, part in enumerate(parts):
                if not part.requires_grad:
                    continue
                gr = torch.autograd.grad(part.sum(), x, retain_graph=True, allow_unused=True)[0]
                if gr is not None:
                    d += gr.detach().numpy() * (1j if pi == 1 else 1.0)
            ses.res["evals"] += 1
            fo = f[:, o, u]
            if sem != "sum-product":
                ok_rows = (np.abs(fo) > 0) & keep
                if not np.all(np.isfinite(d[np.abs(fo) > 0])):
                    ses.fail("grad_nonfinite", pool=0, op=ses.ops[0], th=["x", o + 1, u + 1],
                             detail=f"non-finite input gradient where the value is non-zero: {d.tolist()}"[:400])
                    continue
                with np.errstate(invalid="ignore"):
                    d = d * fo[:, None]
            else:
                ok_rows = np.ones(len(rows), dtype=bool)
                if not np.all(np.isfinite(d)):
                    ses.fail("grad_nonfinite", pool=0, op=ses.ops[0], th=["x", o + 1, u + 1],
                             detail=f"non-finite input gradient: {d.tolist()}"[:400])
                    continue
            exp = np.zeros((len(rows), V), dtype=np.complex128)
            for k, v in enumerate(sc):
                exp[:, built.ids[int(v) - 1]] = want[:, p + k, u]
            obs = np.where(ok_rows[:, None], d, exp)
            if not close(obs, exp, rtol=1e-8):
                ses.fail("grad_value", pool=0, op=ses.ops[0], th=["x", o + 1, u + 1],
                         detail=f"d out[{o}][{u}] / d x: observed {obs.tolist()} expected {exp.tolist()}"[:600])
        p += len(sc) + 1


def zero_rows(beh, rows):
    """indices of the assignments at which some input-layer unit evaluates to exactly zero"""
    out = set()
    for st in beh["stores"][:1]:
        for l, m in zip(beh["layers"], st):
            if l["kind"] in ("const", "clog"):
                if any(int(e[0][0]) == 0 and int(e[1][0]) == 0 for row in m for e in row):
                    return set(range(len(rows)))
            elif l["kind"] in ("emb", "catp", "catl", "binom"):
                for q, r in enumerate(rows):
                    xv = r[l["var"] - 1]
                    if any(int(row[xv][0][0]) == 0 and int(row[xv][1][0]) == 0 for row in m):
                        out.add(q)
            elif l["kind"] == "poly":
                for q, r in enumerate(rows):
                    xv = r[l["var"] - 1]
                    for row in m:
                        re = sum(nums.dy(c[0]) * xv ** d for d, c in enumerate(row))
                        im = sum(nums.dy(c[1]) * xv ** d for d, c in enumerate(row))
                        if re == 0 and im == 0:
                            out.add(q)
    return out


# ---------------------------------------------------------------------------------- queries
def check_queries(ses, beh, built, rows, h):
    """IntegrateQuery on base circuit 1 with per-row masks in the three formats."""
    if 0 not in ses.compiled:
        return
    cc = ses.compiled[0]
    sem = ses.flags[0]
    qt = beh["qtables"]
    V = built.V
    scope = beh["expect"][0]["scope"]
    valid = [m for m in range(0, 2 ** V) if all(((m >> (v - 1)) & 1) == 0 or v in scope
                                                 for v in range(1, V + 1))]
    try:
        q = IntegrateQuery(cc)
    except Exception as e:  # pylint: disable=broad-except
        ses.fail("query_raise", detail=repr(e)[:300])
        return

    def expected(ridx, masks):
        out = []
        for r, m in zip(ridx, masks):
            tab = beh["expect"][0]["table"] if m == 0 else qt[m - 1]
            out.append(tab[r])
        return expected_array(out, list(range(len(out))))

    def mask_scope(m):
        return Scope([built.ids[v - 1] for v in range(1, V + 1) if (m >> (v - 1)) & 1])

    def run(fmt, ridx, masks, arg):
        x = built.batch([rows[r] for r in ridx])
        try:
            out = q(x, integrate_vars=arg)
        except Exception as e:  # pylint: disable=broad-except
            ses.fail("query_raise", fmt=fmt, B=len(ridx), masks=masks, detail=repr(e)[:300])
            return
        ses.res["evals"] += 1
        obs = to_linear(out, sem)
        want = expected(ridx, masks)
        if obs.shape != want.shape:
            ses.fail("query_shape", fmt=fmt, B=len(ridx), masks=masks,
                     detail=f"observed {obs.shape} expected {want.shape}")
        elif not close(obs, want):
            ses.fail("query_value", fmt=fmt, B=len(ridx), masks=masks,
                     nan=bool(np.isnan(obs).any()),
                     detail=f"observed {obs.tolist()} expected {want.tolist()}"[:600])

    nr = len(rows)
    sizes = sorted({1, 2, 3, nr} | set(fold_counts(cc)))
    for B in sizes:
        ridx = [(h + 3 * b) % nr for b in range(B)]
        masks = [valid[(h + 5 * b + B) % len(valid)] for b in range(B)]
        # 1. boolean mask tensor
        mt = torch.zeros((B, built.width), dtype=torch.bool)
        for b, m in enumerate(masks):
            for v in range(1, V + 1):
                if (m >> (v - 1)) & 1:
                    mt[b, built.ids[v - 1]] = True
        if max(built.ids[v - 1] for v in scope) + 1 == built.width:
            run("tensor", ridx, masks, mt)
        # 2. one scope per row (an empty scope = nothing to marginalise for that row)
        run("scopes", ridx, masks, [mask_scope(m) for m in masks])
        # 3. one scope, broadcast
        m0 = [m for m in valid if m != 0][(h + B) % (len(valid) - 1)]
        run("scope", ridx, [m0] * B, mask_scope(m0))
        run("scope1", ridx, [m0] * B, [mask_scope(m0)])
    # rejection of variables outside the scope
    outside = [v for v in range(1, V + 1) if v not in scope]
    x = built.batch([rows[0]])
    bad_args = [Scope([built.width + 3])]
    if outside:
        bad_args.append(Scope([built.ids[outside[0] - 1]]))
    scope_ids = {built.ids[v - 1] for v in scope}
    holes = [i for i in range(max(scope_ids) + 1) if i not in scope_ids]
    if holes:                      # an id below the largest one that is not a variable of the circuit
        bad_args.append(Scope([holes[h % len(holes)]]))
        bad_args.append([Scope([holes[0]])])
    for arg in bad_args:
        try:
            q(x, integrate_vars=arg)
            ses.fail("query_missing_rejection", detail=f"integrate_vars={arg} outside the scope was accepted")
        except Exception:  # pylint: disable=broad-except
            pass


# ---------------------------------------------------------------------------------- sampling
def check_sampling(ses, beh, built, rows, h, tier):
    """SamplingQuery on base circuit 1 (one output, one unit, all variables in scope):
    support, deterministic routing for one-hot parameters, frequencies against the exact joint."""
    from cirkit.backend.torch.queries import SamplingQuery  # pylint: disable=import-outside-toplevel
    if 0 not in ses.compiled:
        return
    exp = beh["expect"][0]
    D = len(exp["scope"])
    if exp["nouts"] != 1 or len(exp["table"][0][0]) != 1 or exp["scope"] != list(range(1, D + 1)):
        return             # the query returns one column per variable of scopes 0..D-1
    cc = ses.compiled[0]
    # the distribution over the variables of the scope (the other model variables are fixed to 0)
    keep = [q for q, r in enumerate(rows) if all(v == 0 for v in r[D:])]
    full_rows = rows
    rows = [tuple(full_rows[q][:D]) for q in keep]
    p = np.array([nums.cfloat(exp["table"][q][0][0]).real for q in keep])
    if np.any(p < 0) or abs(p.sum() - 1.0) > 1e-12:
        ses.fail("model_not_normalised", detail=f"sum {p.sum()}")      # machinery: wrong scheme
        return
    index = {tuple(r): q for q, r in enumerate(rows)}

    def draw(n, sd):
        torch.manual_seed(sd)
        out = SamplingQuery(cc)(num_samples=n)
        smp = out[0] if isinstance(out, tuple) else out
        return smp

    n = 3000 if tier == "quick" else 20000
    try:
        smp = draw(n, h % 100003)
    except Exception as e:  # pylint: disable=broad-except
        ses.fail("sample_raise", detail=repr(e)[:300],
                 layer_types=sorted({type(l).__name__ for l in cc.layers}))
        return
    ses.res["evals"] += 1
    if tuple(smp.shape) != (n, D):
        ses.fail("sample_shape", detail=f"observed {tuple(smp.shape)} expected {(n, D)}")
        return
    arr = smp.detach().cpu().numpy()
    if not np.all(arr == np.round(arr)):
        ses.fail("sample_support", detail="non-integer sample values")
        return

    def counts(a):
        c = np.zeros(len(rows))
        bad = None
        for r in a.astype(np.int64):
            q = index.get(tuple(int(v) for v in r))
            if q is None:
                bad = r.tolist()
            else:
                c[q] += 1
        return c, bad

    c, bad = counts(arr)
    if bad is not None:
        ses.fail("sample_support", detail=f"sample {bad} is outside the domain")
        return
    zero_hit = [rows[q] for q in range(len(rows)) if p[q] == 0 and c[q] > 0]
    if zero_hit:
        ses.fail("sample_support", detail=f"samples with probability zero were drawn: {zero_hit[:3]} "
                                          f"(expected distribution {p.tolist()})")
        return

    def deviates(cnt, m):
        sd_ = np.sqrt(np.maximum(p * (1 - p), 0) / m)
        return np.abs(cnt / m - p) > 6.0 * sd_ + 1e-12

    if np.any(deviates(c, n)):
        # confirm with 8 times more samples and another seed before reporting
        try:
            smp2 = draw(8 * n, (h + 17) % 100003).detach().cpu().numpy()
        except Exception as e:  # pylint: disable=broad-except
            ses.fail("sample_raise", detail=repr(e)[:300])
            return
        c2, bad2 = counts(smp2)
        if bad2 is not None or np.any(deviates(c2, 8 * n)):
            ses.fail("sample_distribution",
                     detail=f"frequencies {(c2 / (8 * n)).round(4).tolist()} expected {p.tolist()} "
                            f"(n={8 * n}, 6 sigma, confirmed)")


def worker(args):
    beh, tier, seed, opts = args
    torch.manual_seed(seed)
    try:
        return replay(beh, tier, seed, opts)
    except Exception as e:  # pylint: disable=broad-except
        return {"hash": beh_hash(beh), "evals": 0, "refused": 0, "tags": [],
                "failures": [{"kind": "harness_error", "detail": repr(e),
                              "trace": traceback.format_exc()[-1500:]}]}
