"""C17: parameter initialisation follows the symbolic initialiser regardless of folding.

TLC (specs/InitSys.tla) enumerates scenarios: sequences of symbolic tensors (weights of sum layers
over one shared input layer, so that equal shapes land in the same fold group), each with its own
initialiser (constant scalar, array, Dirichlet with every positive / negative axis, uniform, normal)
and learnable flag, followed by 0..n resets.  The replayer builds the circuit, compiles it with
fold off / on (and optimize off / on), and after compilation and after every reset reads every
symbolic tensor back through its registry slice and checks the clause the specification states.
"""
import json
import traceback

import numpy as np
import torch

from cirkit.backend.torch.compiler import TorchCompiler
from cirkit.symbolic.circuit import Circuit
from cirkit.symbolic.initializers import (
    ConstantTensorInitializer,
    DirichletInitializer,
    NormalInitializer,
    UniformInitializer,
)
from cirkit.symbolic.layers import EmbeddingLayer, SumLayer
from cirkit.symbolic.parameters import Parameter, TensorParameter
from cirkit.utils.scope import Scope

from . import configs, runner, semantic, tlcrun

torch.set_default_dtype(torch.float64)


def array_for(shape, n):
    k, kin = shape
    return (np.arange(k * kin, dtype=np.float64).reshape(k, kin) * 0.5 - 1.0 + n)


def make_init(t, n):
    sp = t["spec"]
    if sp["kind"] == "const":
        return ConstantTensorInitializer(float(sp["c"]))
    if sp["kind"] == "array":
        return ConstantTensorInitializer(array_for(t["shape"], n))
    if sp["kind"] == "dirichlet":
        return DirichletInitializer(axis=sp["axis"])
    if sp["kind"] == "uniform":
        return UniformInitializer(float(sp["a"]), float(sp["b"]))
    return NormalInitializer(float(sp["a"]), float(sp["b"]))


def check_tensor(t, n, val, requires_grad, fail, where):
    sp = t["spec"]
    shape = tuple(t["shape"])
    if tuple(val.shape) != shape:
        fail("slice_shape", tensor=n, where=where, detail=f"slice shape {tuple(val.shape)} expected {shape}")
        return
    if bool(requires_grad) != bool(t["learnable"]):
        fail("requires_grad", tensor=n, where=where,
             detail=f"learnable={t['learnable']} but requires_grad={bool(requires_grad)}")
    if not np.all(np.isfinite(val)):
        fail("init_value", tensor=n, where=where, spec=sp["kind"], detail="non-finite initial values")
        return
    if sp["kind"] == "const":
        if not np.all(val == float(sp["c"])):
            fail("init_value", tensor=n, where=where, spec="const",
                 detail=f"expected the constant {sp['c']}, found {val.tolist()}")
    elif sp["kind"] == "array":
        if not np.array_equal(val, array_for(t["shape"], n)):
            fail("init_value", tensor=n, where=where, spec="array",
                 detail=f"expected {array_for(t['shape'], n).tolist()}, found {val.tolist()}")
    elif sp["kind"] == "dirichlet":
        ax = t["sumaxis"]
        sums = val.sum(axis=ax)
        if not (np.all(val > 0) and np.all(val < 1 + 1e-12) and np.allclose(sums, 1.0, atol=1e-9)):
            other = val.sum(axis=1 - ax)
            fail("init_value", tensor=n, where=where, spec="dirichlet", axis=sp["axis"],
                 detail=f"Dirichlet(axis={sp['axis']}) on shape {shape}: sums along axis {ax} are "
                        f"{sums.tolist()} (along the other axis {other.tolist()})")
    elif sp["kind"] == "uniform":
        if not (np.all(val >= sp["a"]) and np.all(val <= sp["b"])):
            fail("init_value", tensor=n, where=where, spec="uniform",
                 detail=f"values outside [{sp['a']}, {sp['b']}]: {val.tolist()}")
    elif sp["kind"] == "normal":
        # loose moment bound for a handful of entries: |mean - m| <= 6 s / sqrt(n)
        m, s_ = float(sp["a"]), float(sp["b"])
        if abs(val.mean() - m) > 6.0 * s_ / np.sqrt(val.size) or np.all(val == val.flat[0]):
            fail("init_value", tensor=n, where=where, spec="normal",
                 detail=f"sample mean {val.mean()} for normal({m}, {s_}), {val.size} entries")


def replay(beh, tier, seed, opts):
    h = int(semantic.beh_hash(beh), 16) + seed
    res = {"hash": semantic.beh_hash(beh), "evals": 0, "failures": [], "refused": 0, "tags": []}
    ts = beh["tensors"]
    kin = ts[0]["shape"][1]

    def build():
        e = EmbeddingLayer(Scope([0]), kin, num_states=2)
        layers, ins, params = [e], {}, []
        for n, t in enumerate(ts):
            k, kk = t["shape"]
            if kk != kin:
                # a tensor with another number of input units hangs under its own input layer
                e2 = EmbeddingLayer(Scope([0]), kk, num_states=2)
                layers.append(e2)
                src = e2
            else:
                src = e
            tp = TensorParameter(k, kk, initializer=make_init(t, n), learnable=t["learnable"])
            sl = SumLayer(kk, k, arity=1, weight=Parameter.from_input(tp))
            layers.append(sl)
            ins[sl] = [src]
            params.append(tp)
        # one output per distinct unit count (outputs are stacked): every sum layer is an output
        # of a circuit of its own unit count; the circuits are compiled in one compiler
        byk = {}
        for sl, t in zip([l for l in layers if isinstance(l, SumLayer)], ts):
            byk.setdefault(t["shape"][0], []).append(sl)
        circuits = []
        for k, sls in byk.items():
            used = set()
            for sl in sls:
                used.add(sl)
                used.add(ins[sl][0])
            ls = [l for l in layers if l in used]
            circuits.append(Circuit(ls, {sl: ins[sl] for sl in sls}, sls))
        return circuits, params

    for fold, opt in ((False, False), (True, False), (True, True), (False, True)):
        def fail(kind, **kw):
            d = {"kind": kind, "flags": ["sum-product", fold, opt]}
            d.update(kw)
            res["failures"].append(d)
        try:
            torch.manual_seed(h % 100003)
            circuits, params = build()
            comp = TorchCompiler(semiring="sum-product", fold=fold, optimize=opt)
            ccs = [comp.compile(c) for c in circuits]
            for r in range(beh["resets"] + 1):
                if r > 0:
                    # the parameters have changed since the last initialisation (training):
                    # overwrite every tensor, then reset; the initialiser must apply again
                    with torch.no_grad():
                        for tp in params:
                            ten, idx = comp.state.retrieve_compiled_parameter(tp)
                            ten()[idx].fill_(7.5)
                    for cc in ccs:
                        cc.reset_parameters()
                for n, (t, tp) in enumerate(zip(ts, params)):
                    ten, idx = comp.state.retrieve_compiled_parameter(tp)
                    full = ten()
                    val = full[idx].detach().numpy()
                    check_tensor(t, n, val, full.requires_grad, fail, "compile" if r == 0 else f"reset{r}")
                    res["evals"] += 1
        except Exception as e:  # pylint: disable=broad-except
            fail("init_raise", detail=repr(e)[:300], trace=traceback.format_exc()[-600:])
    return res


def worker(args):
    beh, tier, seed, opts = args
    try:
        return replay(beh, tier, seed, opts)
    except Exception as e:  # pylint: disable=broad-except
        return {"hash": semantic.beh_hash(beh), "evals": 0, "refused": 0, "tags": [],
                "failures": [{"kind": "harness_error", "detail": repr(e),
                              "trace": traceback.format_exc()[-1500:]}]}


def run(pid, tier, seed, rule, assumptions):
    rep = runner.Report(pid, tier, seed)
    rep.assumptions = assumptions
    q = tier == "quick"
    confs = {
        "a_groups": dict(Shapes={(2, 2), (3, 2), (2, 3)}, MaxT=3, MaxResets=2,
                         EmitMod=450 if q else 20, EmitRes=seed),
        "b_singletons": dict(Shapes={(2, 3), (3, 3)}, MaxT=1, MaxResets=1, EmitMod=1, EmitRes=seed),
        "c_pairs_same_shape": dict(Shapes={(3, 2)}, MaxT=2, MaxResets=1, EmitMod=3 if q else 1,
                                   EmitRes=seed),
    }
    for name, consts in confs.items():
        mod, cf = configs.write(f"{pid}_{tier}_{name}", "InitSys", consts, invariants=["TypeOK", "EmitInv"])
        try:
            pay, stats = tlcrun.run_tlc(mod, cf, f"{pid}_{name}", timeout=3000, coverage=False)
        except tlcrun.TLCError as e:
            rep.machinery_errors.append(str(e)[-1500:])
            continue
        rep.add_tlc(name, stats)
        behs = pay["VP"]
        if not behs:
            rep.machinery_errors.append(f"configuration {name} emitted no behaviour (vacuous)")
            continue
        rep.tlc_runs[-1]["behaviours_emitted"] = len(behs)
        results = runner.pmap(worker, [(b, tier, seed, {}) for b in behs])
        if len(rep.samples) < 3:
            rep.samples.append({"config": name, "scenario": behs[len(behs) // 2]})
        for b, r in zip(behs, results):
            rep.replayed += 1
            rep.evaluations += r["evals"]
            fs = []
            for f in r["failures"]:
                if f["kind"] == "harness_error":
                    rep.machinery_errors.append(f["detail"] + f.get("trace", ""))
                    continue
                flags = f.get("flags") or [None, None, None]
                sig = {"kind": f["kind"], "spec": f.get("spec"), "fold": flags[1], "optimize": flags[2],
                       "axis_nonnegative": (f.get("axis") is not None and f.get("axis") >= 0)}
                if rep.known_only(sig):
                    continue
                fs.append((sig, f))
            if fs:
                sig, f = fs[0]
                rep.failure(sig, {"hash": r["hash"], "engine": "init-replay", "config": name,
                                  "behaviour": b, "failures": [x[1] for x in fs]},
                            f"{f['kind']} {f.get('where')} flags={f.get('flags')} tensors="
                            f"{json.dumps(b['tensors'])[:300]} {f.get('detail', '')[:300]}")
    return rep.finish(rule, exhaustive=(tier == "thorough"))


def replay_file(path, pid):
    with open(path) as f:
        obj = json.load(f)
    r = replay(obj["behaviour"], "thorough", 0, {})
    print(json.dumps(r["failures"], indent=1)[:4000])
    if r["failures"]:
        print(f"VIOLATION property={pid} replay={path}")
        return 1
    print("replay: no failure reproduced")
    return 0
