"""Run TLC on a specification/configuration and collect emitted behaviours and statistics."""
import json
import os
import re
import shutil
import subprocess
import time

VERIF = os.path.dirname(os.path.dirname(os.path.abspath(__file__)))
SPECS = os.path.join(VERIF, "specs")
WORK = os.path.join(os.environ.get("VERIF_OUT", VERIF), "work")


class TLCError(Exception):
    pass


def _unquote(s):
    # TLC prints strings with \" and \\ escapes: identical to JSON string escapes
    return json.loads('"' + s + '"')


_VP = re.compile(r'<<"(VP|REJECT|ACCEPT|INFO)", "((?:[^"\\]|\\.)*)">>')


def parse_output(path):
    """Extracts the JSON payloads of <<"VP", "...">> lines (robust to interleaved workers:
    payloads are matched by quote scanning, not by line)."""
    out = {"VP": [], "REJECT": [], "ACCEPT": [], "INFO": []}
    with open(path, "r", errors="replace") as f:
        text = f.read()
    for m in _VP.finditer(text):
        out[m.group(1)].append(json.loads(_unquote(m.group(2))))
    stats = {}
    m = re.search(r"(\d+) states generated, (\d+) distinct states found", text)
    if m:
        stats["generated"] = int(m.group(1))
        stats["distinct"] = int(m.group(2))
    m = re.search(r"The depth of the complete state graph search is (\d+)", text)
    if m:
        stats["depth"] = int(m.group(1))
    stats["completed"] = "Model checking completed. No error has been found." in text
    stats["error"] = None
    m = re.search(r"Error: (.*)", text)
    if m and not stats["completed"]:
        stats["error"] = m.group(1)
    if "is violated" in text:
        m2 = re.search(r"Invariant (\S+) is violated", text)
        stats["invariant_violated"] = m2.group(1) if m2 else "?"
    # coverage of actions: <Action line ... of module M>: distinct:generated
    cov = {}
    for m in re.finditer(r"<(\w+) line \d+, col \d+ to line \d+, col \d+ of module (\w+)>: (\d+):(\d+)", text):
        cov[m.group(1)] = {"distinct": int(m.group(3)), "generated": int(m.group(4))}
    stats["action_coverage"] = cov
    return out, stats, text


def run_tlc(module, cfg, tag, workers=16, timeout=3600, simulate=None, depth=None,
            seed=None, env_extra=None, coverage=True, keep=False, extra_args=()):
    """module, cfg: file names under specs/.  Returns (payloads, stats)."""
    os.makedirs(WORK, exist_ok=True)
    meta = os.path.join(WORK, f"meta_{tag}_{os.getpid()}")
    outp = os.path.join(WORK, f"tlc_{tag}_{os.getpid()}.out")
    shutil.rmtree(meta, ignore_errors=True)
    cmd = ["tlc", "-workers", str(workers), "-metadir", meta, "-noGenerateSpecTE",
           "-config", cfg]
    if coverage and not simulate:
        cmd += ["-coverage", "1"]
    if simulate:
        cmd += ["-simulate", simulate]
        if depth:
            cmd += ["-depth", str(depth)]
    if seed is not None:
        cmd += ["-seed", str(seed)]
    cmd += list(extra_args)
    cmd += [module]
    env = dict(os.environ)
    if env_extra:
        env.update(env_extra)
    t0 = time.time()
    with open(outp, "w") as fo:
        try:
            p = subprocess.run(cmd, cwd=SPECS, stdout=fo, stderr=subprocess.STDOUT,
                               timeout=timeout, env=env)
            rc = p.returncode
            timed_out = False
        except subprocess.TimeoutExpired:
            rc = -1
            timed_out = True
            subprocess.run(["pkill", "-f", meta], check=False)
    payloads, stats, text = parse_output(outp)
    stats["wall_s"] = time.time() - t0
    stats["rc"] = rc
    stats["timed_out"] = timed_out
    stats["cmd"] = " ".join(cmd)
    shutil.rmtree(meta, ignore_errors=True)
    if not keep:
        # keep the tail for diagnostics
        stats["tail"] = text[-1500:] if not stats.get("completed") else ""
        os.remove(outp)
    else:
        stats["out_path"] = outp
    if not timed_out and not stats.get("completed") and not simulate \
            and "invariant_violated" not in stats:
        errs = [m.start() for m in re.finditer(r"^Error: ", text, re.M)]
        snippet = "\n".join(text[e:e + 400] for e in errs[:3]) if errs else text[-1500:]
        raise TLCError(f"TLC failed ({module}/{cfg}): rc={rc}\n{snippet}")
    return payloads, stats
