"""C08 / C09: structural predicates and operator contracts.

TLC (CircuitSys.tla, EmitStructInv) enumerates layered DAGs over scopes only -- including non-smooth
and non-decomposable ones, empty-scope layers, one or two base circuits, and (Invalid = TRUE)
operator calls with invalid arguments -- and emits for each state the Tier-R answers computed from
Structure.tla: smooth / decomposable / structured-decomposable per base circuit, compatibility of
the pair, and for every operator call its outcome class and the promised scope / number of
outputs.  The replayer builds the circuits, asks cirkit, and compares.
"""
import itertools
import json

from cirkit.symbolic.circuit import Circuit, StructuralPropertyError, are_compatible
from cirkit.symbolic.layers import (
    ConstantValueLayer,
    EmbeddingLayer,
    HadamardLayer,
    KroneckerLayer,
    PolynomialLayer,
    SumLayer,
)
from cirkit.symbolic.initializers import NormalInitializer
from cirkit.symbolic.parameters import Parameter, TensorParameter
from cirkit.utils.scope import Scope
import cirkit.symbolic.functional as SF

from . import configs, runner, sem_props, semantic, tlcrun
from .sem_props import cfg

RHOS = [(0, 1, 2, 3), (1, 3, 8, 11), (2, 9, 16, 17), (8, 3, 1, 0), (3, 0, 2, 1)]


def reach(L, outs):
    seen, stack = set(), list(outs)
    while stack:
        j = stack.pop()
        if j not in seen:
            seen.add(j)
            stack.extend(L[j - 1]["ins"])
    return seen


def build(beh, rho, perms=None):
    """perms: {layer index (1-based): permutation of its input list} for product layers"""
    L = beh["layers"]
    layers, in_layers = [], {}
    for i, l in enumerate(L):
        kind, K = l["kind"], l["K"]
        if kind in ("const", "clog"):
            sl = ConstantValueLayer(K, log_space=(kind == "clog"),
                                    value=Parameter.from_input(TensorParameter(K, initializer=NormalInitializer())))
        elif kind == "poly":
            sl = PolynomialLayer(Scope([rho[l["var"] - 1]]), K, degree=1)
        elif not l["ins"]:
            sl = EmbeddingLayer(Scope([rho[l["var"] - 1]]), K, num_states=beh["dom"][l["var"] - 1])
        else:
            ins = list(l["ins"])
            if perms and (i + 1) in perms:
                ins = [ins[p] for p in perms[i + 1]]
            kin = L[ins[0] - 1]["K"]
            if kind in ("sum", "mix"):
                sl = SumLayer(kin, K, arity=len(ins))
            elif kind == "had":
                sl = HadamardLayer(kin, arity=len(ins))
            else:
                sl = KroneckerLayer(kin, arity=len(ins))
            in_layers[sl] = [layers[j - 1] for j in ins]
        layers.append(sl)
    circuits = []
    for outs in beh["bases"]:
        r = reach(L, outs)
        ls = [layers[j - 1] for j in sorted(r)]
        circuits.append(Circuit(ls, {k: v for k, v in in_layers.items() if k in set(ls)},
                                [layers[j - 1] for j in outs]))
    return circuits


# ---------------------------------------------------------------- definitions on a real Circuit
def def_flags(c):
    """smooth / decomposable / structured-decomposable of a cirkit Circuit, by definition, from
    the layers' scopes only (used for operator RESULTS, whose structure the model does not know)"""
    sc = c.layer_scope
    smooth = all(set(sc(i)) == set(sc(s)) for s in c.sum_layers for i in c.layer_inputs(s))
    decomp = all(not (set(sc(a)) & set(sc(b)))
                 for p in c.product_layers
                 for a, b in itertools.combinations(c.layer_inputs(p), 2))
    facts = {}
    same = True
    for p in c.product_layers:
        f = frozenset(frozenset(sc(i)) for i in c.layer_inputs(p) if len(sc(i)))
        if len(f) > 1:
            key = frozenset(sc(p))
            if key in facts and facts[key] != f:
                same = False
            facts.setdefault(key, f)
    return smooth, decomp, smooth and decomp and same, facts


def def_compatible(c1, c2):
    s1, d1, _, f1 = def_flags(c1)
    s2, d2, _, f2 = def_flags(c2)
    if not (s1 and d1 and s2 and d2):
        return False
    _, _, sd1, _ = def_flags(c1)
    _, _, sd2, _ = def_flags(c2)
    if not (sd1 and sd2):
        return False
    return all(f1[k] == f2[k] for k in f1 if k in f2)


def replay(beh, tier, seed, opts):
    h = int(semantic.beh_hash(beh), 16) + seed
    res = {"hash": semantic.beh_hash(beh), "evals": 0, "failures": [], "refused": 0, "tags": []}
    L = beh["layers"]
    nb = len(beh["bases"])
    st = beh["struct"]

    def fail(kind, **kw):
        d = {"kind": kind}
        d.update(kw)
        res["failures"].append(d)

    # ---------------- C08: predicates under renumberings and input-order permutations
    prods = [i + 1 for i, l in enumerate(L) if l["kind"] in ("had", "kron")]
    variants = [(RHOS[0], None)]
    for r in RHOS[1:]:
        variants.append((r, None))
    all_perm_sets = []
    for i in prods:
        n = len(L[i - 1]["ins"])
        all_perm_sets.append([(i, p) for p in itertools.permutations(range(n))])
    combos = list(itertools.product(*all_perm_sets)) if all_perm_sets else []
    if len(combos) > 12:
        combos = [combos[(h + 7 * k) % len(combos)] for k in range(12)]
    for cb in combos:
        variants.append((RHOS[h % len(RHOS)], dict(cb)))
    answers = []
    for rho, perms in variants:
        try:
            cs = build(beh, rho, perms)
        except Exception as e:  # pylint: disable=broad-except
            fail("build_raise", detail=repr(e)[:300])
            continue
        res["evals"] += 1
        ans = []
        for b, c in enumerate(cs):
            e = st[b]
            got = (bool(c.is_smooth), bool(c.is_decomposable), bool(c.is_structured_decomposable))
            ans.append(got)
            if got[0] != e["smooth"]:
                fail("is_smooth", base=b, rho=list(rho), perms=str(perms),
                     detail=f"is_smooth={got[0]} definition={e['smooth']}")
            if got[1] != e["decomp"]:
                fail("is_decomposable", base=b, rho=list(rho), perms=str(perms),
                     detail=f"is_decomposable={got[1]} definition={e['decomp']}")
            if got[2] and not e["sd"]:
                fail("sd_unsound", base=b, rho=list(rho), perms=str(perms),
                     detail="reported structured-decomposable, definition says it is not")
        for b, c in enumerate(cs):
            if not st[b]["sd"]:
                other = build(beh, rho, perms)[b]
                if bool(are_compatible(c, c)) or bool(are_compatible(c, other)) \
                        or bool(are_compatible(other, c)):
                    fail("compat_unsound", base=b, rho=list(rho), perms=str(perms),
                         detail="a circuit that is not structured-decomposable by definition is "
                                "reported compatible with itself / with a copy of itself")
        if nb == 2:
            c12 = bool(are_compatible(cs[0], cs[1]))
            c21 = bool(are_compatible(cs[1], cs[0]))
            ans.append((c12, c21))
            if c12 != c21:
                fail("compat_asymmetric", rho=list(rho), perms=str(perms),
                     detail=f"are_compatible(a,b)={c12} are_compatible(b,a)={c21}")
            if (c12 or c21) and not beh["compat"][0]:
                fail("compat_unsound", rho=list(rho), perms=str(perms),
                     detail="reported compatible, definition says they are not")
        answers.append((rho, perms, ans))
    if answers:
        ref = answers[0][2]
        for rho, perms, ans in answers[1:]:
            if ans != ref:
                fail("order_dependent" if perms else "numbering_dependent", rho=list(rho),
                     perms=str(perms), detail=f"answers {ans} differ from {ref} of the listed order / "
                                              f"identity numbering")
                break
    # ---------------- C09: operator contracts
    if beh["ops"] and opts.get("ops", True):
        rho = RHOS[h % 3]
        try:
            pool = list(build(beh, rho))
        except Exception as e:  # pylint: disable=broad-except
            fail("build_raise", detail=repr(e)[:300])
            return res
        for n, t in enumerate(beh["ops"]):
            i = nb + n
            e = st[i]
            pre = e["pre"]
            op = t["op"]

            def arg(k):
                return pool[k - 1]
            if pre == "skip" or any(pool[k - 1] is None for k in _operands(t)):
                pool.append(None)
                continue
            exc, out = None, None
            try:
                if op == "integrate":
                    out = SF.integrate(arg(t["a"]), Scope([rho[v - 1] for v in t["Z"]]))
                elif op == "multiply":
                    out = SF.multiply(arg(t["a"]), arg(t["b"]))
                elif op == "evidence":
                    out = SF.evidence(arg(t["a"]), {rho[v - 1]: val for v, val in zip(t["vars"], t["vals"])})
                elif op == "conjugate":
                    out = SF.conjugate(arg(t["a"]))
                elif op == "concat":
                    out = SF.concatenate([arg(k) for k in t["args"]])
                elif op == "differentiate":
                    out = SF.differentiate(arg(t["a"]), order=t["k"])
            except Exception as ex:  # pylint: disable=broad-except
                exc = ex
            res["evals"] += 1
            pool.append(out)
            if exc is not None:
                res["refused"] += 1
                if pre == "ok":
                    fail("unexpected_refusal", op=op, pool=i, detail=repr(exc)[:300])
                elif pre == "struct" and not isinstance(exc, StructuralPropertyError):
                    fail("wrong_exception", op=op, pool=i,
                         detail=f"expected StructuralPropertyError, got {exc!r}"[:300])
                continue
            if pre in ("struct", "value", "raise"):
                fail("missing_refusal", op=op, pool=i, pre=pre,
                     detail=f"outcome class {pre}: a circuit was returned for {json.dumps(t)}")
                continue
            # the operator returned: promised structure of the result
            sm, de, sdd, _ = def_flags(out)
            operands_ok = all(def_flags(pool[k - 1])[0] and def_flags(pool[k - 1])[1]
                              for k in _operands(t))
            # (evidence, conjugate and concatenate accept circuits that are not smooth or not
            # decomposable; their results can then not be either)
            if operands_ok and (not sm or not de):
                fail("result_not_smooth_decomposable", op=op, pool=i,
                     detail=f"smooth={sm} decomposable={de} (by definition on the result)")
            if "scope" in e:
                want = sorted(rho[v - 1] for v in e["scope"])
                if sorted(out.scope) != want:
                    fail("result_scope", op=op, pool=i, detail=f"scope {sorted(out.scope)} expected {want}")
                if len(list(out.outputs)) != e["nouts"]:
                    fail("result_nouts", op=op, pool=i,
                         detail=f"{len(list(out.outputs))} outputs expected {e['nouts']}")
            if op == "multiply":
                a, b = arg(t["a"]), arg(t["b"])
                if def_flags(a)[2] and def_flags(b)[2]:
                    if not sdd:
                        fail("product_not_sd", op=op, pool=i,
                             detail="product of structured-decomposable operands is not SD (by definition)")
                    for nm, x in (("first", a), ("second", b)):
                        if not def_compatible(out, x):
                            fail("product_not_compatible", op=op, pool=i,
                                 detail=f"product not compatible with its {nm} operand (by definition)")
            if op == "conjugate":
                a = arg(t["a"])
                if def_flags(a)[:3] != (sm, de, sdd):
                    fail("conjugate_flags", op=op, pool=i,
                         detail=f"flags {def_flags(a)[:3]} became {(sm, de, sdd)}")
                if (bool(a.is_smooth), bool(a.is_decomposable), bool(a.is_structured_decomposable)) != \
                        (bool(out.is_smooth), bool(out.is_decomposable), bool(out.is_structured_decomposable)):
                    fail("conjugate_reported_flags", op=op, pool=i,
                         detail="reported structural flags changed under conjugation")
    return res


def _operands(t):
    if t["op"] == "multiply":
        return [t["a"], t["b"]]
    if t["op"] == "concat":
        return list(t["args"])
    return [t["a"]]


def worker(args):
    import traceback  # pylint: disable=import-outside-toplevel
    beh, tier, seed, opts = args
    try:
        return replay(beh, tier, seed, opts)
    except Exception as e:  # pylint: disable=broad-except
        return {"hash": semantic.beh_hash(beh), "evals": 0, "refused": 0, "tags": [],
                "failures": [{"kind": "harness_error", "detail": repr(e),
                              "trace": traceback.format_exc()[-1500:]}]}


ALLINNER = {"sum", "had", "kron", "mix"}


def configurations(pid, tier, seed):
    q = tier == "quick"

    def em(quick_mod, thorough_mod=1):
        return dict(EmitMod=quick_mod if q else thorough_mod, EmitRes=seed)

    o = {"emit": "EmitStructInv", "worker": worker}
    if pid == "C08":
        o8 = dict(o, ops=False)
        return {
            "a_single": (cfg(Dom=(2, 2, 2), KSet={1}, MaxL=5, MaxIn=3, MaxAr=3,
                             InKindSeq=("emb", "const"), InnerKinds={"sum", "had"},
                             FreeOrder=True, MaxOuts=1, EmitSmall=3, **em(60, 4)), o8),
            "b_pairs": (cfg(Dom=(2, 2, 2), KSet={1}, MaxL=6, MaxIn=4, MaxAr=2,
                            MaxBases=2, InKindSeq=("emb",), InnerKinds={"had"},
                            FreeOrder=True, MaxOuts=1, EmitSmall=0, **em(10, 1)), o8),
            "d_two_splits": (cfg(Dom=(2, 2, 2), KSet={1}, MaxL=7, MaxIn=3, MaxAr=2,
                                 InKindSeq=("emb",), InnerKinds={"had"}, FreeOrder=False,
                                 MaxOuts=2, EmitSmall=0, EmitFilter="nonsd", **em(1, 1)), o8),
            "c_pairs_sums": (cfg(Dom=(2, 2, 2), KSet={1}, MaxL=5, MaxIn=3, MaxAr=2, MaxBases=2,
                                 InKindSeq=("emb",), InnerKinds={"sum", "had"}, FreeOrder=False,
                                 MaxOuts=2, EmitSmall=0, **em(40, 2)), o8),
        }
    if pid == "C09":
        return {
            "a_invalid_args": (cfg(Dom=(2, 2), KSet={1, 2}, MaxL=4, MaxIn=2,
                                   InKindSeq=("emb", "poly"), InnerKinds={"sum", "had", "kron"},
                                   MaxOps=1, Invalid=True, DiffK={-1, 0, 1, 2},
                                   OpSet={"integrate", "differentiate", "evidence", "conjugate"},
                                   EmitOps={1}, MaxOuts=1, EmitSmall=0, **em(5, 1)), o),
            "b_pairs_multiply": (cfg(Dom=(2, 2, 2), KSet={1}, MaxL=6, MaxIn=4, MaxAr=2,
                                     MaxBases=2, InKindSeq=("emb",), InnerKinds={"had"},
                                     FreeOrder=True, MaxOps=1, Invalid=True, OpSet={"multiply"},
                                     EmitOps={1}, MaxOuts=1, EmitSmall=0, **em(40, 4)), o),
            "c_chains": (cfg(Dom=(2, 2), KSet={1, 2}, MaxL=4, MaxIn=2, InKindSeq=("emb",),
                             InnerKinds={"sum", "had", "kron"}, MaxOps=2, Invalid=True,
                             OnlySD=True, MaxDeg=4,
                             OpSet={"integrate", "multiply", "evidence", "conjugate", "concat"},
                             EmitOps={2}, MaxOuts=2, EmitSmall=0, **em(500, 50)), o),
            "e_self_multiply": (cfg(Dom=(2, 2, 2), KSet={1}, MaxL=7, MaxIn=3, MaxAr=2,
                                    InKindSeq=("emb",), InnerKinds={"had"}, FreeOrder=False,
                                    MaxOps=1, Invalid=True, OpSet={"multiply"}, EmitOps={1},
                                    MaxOuts=2, EmitSmall=0, EmitFilter="nonsd", **em(1, 1)), o),
            "d_pairs_sums": (cfg(Dom=(2, 2, 2), KSet={1}, MaxL=5, MaxIn=3, MaxAr=2, MaxBases=2,
                                 InKindSeq=("emb",), InnerKinds={"sum", "had"}, FreeOrder=False,
                                 MaxOps=1, Invalid=True, OpSet={"multiply"}, EmitOps={1},
                                 MaxOuts=2, EmitSmall=0, **em(160, 8)), o),
        }
    raise KeyError(pid)


def extra_sig(beh, f):
    return {"base": f.get("base"), "pre": f.get("pre"), "two_bases": len(beh["bases"]) == 2,
            "has_empty_scope_layer": any(l["kind"] in ("const", "clog") for l in beh["layers"])}


def run(pid, tier, seed, rule, assumptions):
    return sem_props.run(pid, tier, seed, rule, assumptions,
                         confs=configurations(pid, tier, seed), extra_sig=extra_sig)


def replay_file(path, pid):
    with open(path) as f:
        obj = json.load(f)
    r = replay(obj["behaviour"], "thorough", 0, obj.get("opts") or {})
    print(json.dumps(r["failures"], indent=1)[:4000])
    if r["failures"]:
        print(f"VIOLATION property={pid} replay={path}")
        return 1
    print("replay: no failure reproduced")
    return 0
