"""Development aid: sizes of the ParamSys configurations."""
import sys, time
from . import configs, param_props, tlcrun
tier = sys.argv[1] if len(sys.argv) > 1 else "quick"
only = sys.argv[2] if len(sys.argv) > 2 else None
for name, consts in param_props.configurations(tier, 0).items():
    if only and name != only:
        continue
    consts.setdefault("LeafKinds", {"tensor", "const", "ref"})
    consts.setdefault("PosLeaves", False)
    mod, cf = configs.write(f"C14_{tier}_{name}", "ParamSys", consts, invariants=["TypeOK", "EmitInv"])
    t0 = time.time()
    try:
        pay, st = tlcrun.run_tlc(mod, cf, f"tune_C14_{name}", coverage=False, timeout=900)
        print(name, "states", st.get("distinct"), "emitted", len(pay["VP"]), "tlc_s", round(time.time() - t0, 1), st.get("timed_out"))
    except tlcrun.TLCError as e:
        import re
        print(name, "ERROR", re.findall(r"Error: .*", str(e))[:3])
