"""Known findings: genuine defects of cirkit that were recorded rather than repaired.

/verif/known_findings.json is read-only at run time.  A finding matches a failure iff every key of
its `match` dictionary agrees with the failure's signature:
  * "has_<name>": value   -> value is a member of signature[<name>] (a list)
  * "<name>": [v1, v2]    -> signature[<name>] is one of the listed values
  * "<name>": v           -> signature[<name>] == v
Entries under "fixed" are documentation only and suppress nothing.
"""
import json
import os

PATH = os.path.join(os.path.dirname(os.path.dirname(os.path.abspath(__file__))),
                    "known_findings.json")


def load():
    with open(PATH) as f:
        return json.load(f)


def matches(finding, prop, sig):
    props = finding["property"]
    if prop not in (props if isinstance(props, list) else [props]):
        return False
    for k, v in finding["match"].items():
        if k.startswith("has_"):
            if v not in sig.get(k[4:], []):
                return False
        elif k.startswith("not_has_"):
            if v in sig.get(k[8:], []):
                return False
        elif isinstance(v, list):
            if sig.get(k) not in v:
                return False
        else:
            if sig.get(k) != v:
                return False
    return True


def classify(prop, sig, findings=None):
    """Returns the id of the first matching finding, or None."""
    if findings is None:
        findings = load()
    for f in findings.get("findings", []):
        if matches(f, prop, sig):
            return f
    return None
