"""C14: parameter operators.

TLC (specs/ParamSys.tla) enumerates parameter graphs (node types x shapes x axes x compositions)
and computes, over exact rationals, the documented tensor function of every node under two leaf
valuations.  The replayer builds the symbolic Parameter graph, compiles it with the real rules and
compares (i) the declared symbolic shape, the compiled shape and the computed shape with the
expected shape, (ii) the computed values of the whole graph with the expected values, and (iii)
every node instantiated with num_folds = 2 on the two valuations stacked (fold f = node(input f)).
"""
import json
import math
import traceback
from fractions import Fraction

import numpy as np
import torch

import cirkit.symbolic.parameters as SP
from cirkit.backend.torch.compiler import TorchCompiler
from cirkit.symbolic.initializers import ConstantTensorInitializer
from cirkit.symbolic.parameters import (
    ConstantParameter,
    Parameter,
    ReferenceParameter,
    TensorParameter,
)

from . import configs, runner, semantic, tlcrun

torch.set_default_dtype(torch.float64)


def frac(v):
    return Fraction(int(v[0]), int(v[1]))


def actual(node, which):
    """expected value of a node as float array in the node's own domain (log r for dom = log)"""
    vals = np.array([float(frac(v)) for v in node[which]], dtype=np.float64).reshape(node["shape"])
    if node["dom"] == "log":
        vals = np.log(vals)
    return vals


def linear(node, which):
    return np.array([float(frac(v)) for v in node[which]], dtype=np.float64).reshape(node["shape"])


def axis_arg(node, rank, h):
    """model axis (1-based) -> python axis, negative or non-negative by hash"""
    a = node["axis"] - 1
    return a - rank if h % 2 else a


def sym_node(node, in_shapes, h):
    op = node["op"]
    s = [tuple(x) for x in in_shapes]
    r = len(s[0])
    if op == "sum":
        return SP.SumParameter(s[0], s[1])
    if op == "had":
        return SP.HadamardParameter(s[0], s[1])
    if op == "kron":
        return SP.KroneckerParameter(s[0], s[1])
    if op == "outerprod":
        return SP.OuterProductParameter(s[0], s[1], axis=axis_arg(node, r, h))
    if op == "outersum":
        return SP.OuterSumParameter(s[0], s[1], axis=axis_arg(node, r, h))
    if op == "index":
        return SP.IndexParameter(s[0], indices=list(node["idx"]), axis=axis_arg(node, r, h))
    if op == "square":
        return SP.SquareParameter(s[0])
    if op == "clamp":
        return SP.ClampParameter(s[0], vmin=float(node["p1"]), vmax=float(node["p2"]))
    if op == "conj":
        return SP.ConjugateParameter(s[0])
    if op == "exp":
        return SP.ExpParameter(s[0])
    if op == "log":
        return SP.LogParameter(s[0])
    if op == "softplus":
        return SP.SoftplusParameter(s[0])
    if op == "sigmoid":
        return SP.SigmoidParameter(s[0])
    if op == "ssigmoid":
        return SP.ScaledSigmoidParameter(s[0], vmin=float(node["p1"]), vmax=float(node["p2"]))
    if op == "softmax":
        return SP.SoftmaxParameter(s[0], axis=axis_arg(node, r, h))
    if op == "logsoftmax":
        return SP.LogSoftmaxParameter(s[0], axis=axis_arg(node, r, h))
    if op == "rlse":
        return SP.ReduceLSEParameter(s[0], axis=axis_arg(node, r, h))
    if op == "rsum":
        return SP.ReduceSumParameter(s[0], axis=axis_arg(node, r, h))
    if op == "rprod":
        return SP.ReduceProductParameter(s[0], axis=axis_arg(node, r, h))
    if op == "mix":
        return SP.MixingWeightParameter(s[0])
    if op == "polyprod":
        return SP.PolynomialProduct(s[0], s[1])
    if op == "polydiff":
        return SP.PolynomialDifferential(s[0], order=node["p1"])
    if op == "gmean":      # model args (m1, m2, s1, s2) -> (mean1, stddev1, mean2, stddev2)
        return SP.GaussianProductMean(s[0], s[2], s[1], s[3])
    if op == "gvar":
        return SP.GaussianProductStddev(s[2], s[3])
    raise ValueError(op)


def sym_args(node, built):
    if node["op"] == "gmean":
        m1, m2, s1, s2 = built
        return [m1, s1, m2, s2]
    if node["op"] == "gvar":
        _, _, s1, s2 = built
        return [s1, s2]
    return built


def close(obs, exp, rtol=1e-9):
    obs = np.asarray(obs)
    if obs.shape != exp.shape or not np.all(np.isfinite(obs)):
        return False
    return bool(np.all(np.abs(obs - exp) <= rtol * np.maximum(1.0, np.abs(exp))))


def compare(node, which, obs):
    """obs: float array in the node's actual domain"""
    exp = linear(node, which)
    if node["dom"] == "log":
        obs = np.exp(obs)
    if node["op"] == "gvar":
        obs = np.square(obs)
    return close(obs, exp), exp


def replay(beh, tier, seed, opts):
    h = int(semantic.beh_hash(beh), 16) + seed
    res = {"hash": semantic.beh_hash(beh), "evals": 0, "failures": [], "refused": 0, "tags": []}
    nodes = beh["nodes"]

    def fail(kind, **kw):
        d = {"kind": kind}
        d.update(kw)
        res["failures"].append(d)

    uses = [0] * len(nodes)
    for n in nodes:
        for a in n["args"]:
            uses[a - 1] += 1
    comp = TorchCompiler(semiring="sum-product", fold=False, optimize=False)
    # ---------------- leaves
    tensors = {}
    for i, n in enumerate(nodes):
        if n["op"] != "leaf":
            continue
        arr = actual(n, "a")
        if n["kind"] == "const":
            continue
        tp = TensorParameter(*n["shape"], initializer=ConstantTensorInitializer(arr))
        tensors[i] = tp
        if n["kind"] == "ref" or uses[i] > 1:
            cp = comp.compile_parameter(Parameter.from_input(tp))
            cp.reset_parameters()
    first_use = set()

    def use(i):
        """a fresh symbolic Parameter computing node i (graphs are expanded to trees)"""
        n = nodes[i]
        if n["op"] == "leaf":
            if n["kind"] == "const":
                return Parameter.from_input(ConstantParameter(*n["shape"], value=actual(n, "a")))
            if n["kind"] == "ref" or uses[i] > 1:
                return Parameter.from_input(ReferenceParameter(tensors[i]))
            return Parameter.from_input(tensors[i])
        built = [use(a - 1) for a in n["args"]]
        sn = sym_node(n, [nodes[a - 1]["shape"] for a in n["args"]], h + i)
        return Parameter.from_nary(sn, *sym_args(n, built))

    try:
        root = use(len(nodes) - 1)
    except Exception as e:  # pylint: disable=broad-except
        fail("build_raise", detail=repr(e)[:300], trace=traceback.format_exc()[-500:])
        return res
    last = nodes[-1]
    # (i) shapes
    if tuple(root.shape) != tuple(last["shape"]):
        fail("declared_shape", op=last["op"], detail=f"symbolic shape {tuple(root.shape)} expected {tuple(last['shape'])}")
    try:
        cp = comp.compile_parameter(root)
        cp.reset_parameters()
        if tuple(cp.shape) != tuple(last["shape"]):
            fail("compiled_shape", op=last["op"], detail=f"compiled shape {tuple(cp.shape)} expected {tuple(last['shape'])}")
        with torch.no_grad():
            out = cp().numpy()
        res["evals"] += 1
        if out.shape != (1,) + tuple(last["shape"]):
            fail("computed_shape", op=last["op"], detail=f"computed shape {out.shape} expected {(1,) + tuple(last['shape'])}")
        else:
            ok, exp = compare(last, "a", out[0])
            if not ok:
                fail("graph_value", op=last["op"], ops=[n["op"] for n in nodes],
                     detail=f"observed {out[0].tolist()} expected {exp.tolist()} (dom {last['dom']})"[:600])
    except Exception as e:  # pylint: disable=broad-except
        fail("compile_or_eval_raise", op=last["op"], ops=[n["op"] for n in nodes], detail=repr(e)[:300],
             trace=traceback.format_exc()[-500:])
    # (iii) every operator node folded (num_folds = 2): fold f = node(input f)
    for i, n in enumerate(nodes):
        if n["op"] == "leaf":
            continue
        try:
            sn = sym_node(n, [nodes[a - 1]["shape"] for a in n["args"]], h + i)
            tn = comp.retrieve_parameter_rule(type(sn))(comp, sn)
            folded = type(tn)(**tn.config, num_folds=2)
            model_args = [nodes[a - 1] for a in n["args"]]
            ins = [torch.from_numpy(np.stack([actual(m, "a"), actual(m, "b")])) for m in model_args]
            ins = sym_args(n, ins)
            with torch.no_grad():
                out = folded(*ins).numpy()
            res["evals"] += 1
            if tuple(folded.shape) != tuple(n["shape"]) or out.shape != (2,) + tuple(n["shape"]):
                fail("folded_shape", op=n["op"], detail=f"declared {tuple(folded.shape)} computed {out.shape} "
                                                          f"expected (2,)+{tuple(n['shape'])}")
                continue
            for f, which in enumerate(("a", "b")):
                ok, exp = compare(n, which, out[f])
                if not ok:
                    fail("folded_value", op=n["op"], fold=f, axis=n["axis"],
                         detail=f"fold {f}: observed {out[f].tolist()} expected {exp.tolist()} "
                                f"(dom {n['dom']}, axis {n['axis']}, in shapes "
                                f"{[m['shape'] for m in model_args]})"[:600])
                    break
        except Exception as e:  # pylint: disable=broad-except
            fail("folded_raise", op=n["op"], detail=repr(e)[:300], trace=traceback.format_exc()[-500:])
    # (iv) the graph as the weight of sum layers of a small circuit, compiled under every
    #      fold x optimize combination (parameter-graph optimisation rules, folding of whole
    #      parameter graphs): two sum layers carry the graph under valuation a and b
    if len(last["shape"]) == 2 and not res["failures"]:
        circuit_level(nodes, uses, h, fail, res)
    res["tags"] = sorted({n["op"] for n in nodes})
    return res


def circuit_level(nodes, uses, h, fail, res):
    from cirkit.symbolic.circuit import Circuit  # pylint: disable=import-outside-toplevel
    from cirkit.symbolic.layers import EmbeddingLayer, SumLayer  # pylint: disable=import-outside-toplevel
    from cirkit.utils.scope import Scope  # pylint: disable=import-outside-toplevel
    last = nodes[-1]
    ko, ki = last["shape"]
    for fold, opt in ((False, True), (True, False), (True, True)):
        try:
            comp = TorchCompiler(semiring="sum-product", fold=fold, optimize=opt)
            roots = []
            for which in ("a", "b"):
                tensors = {}
                for i, n in enumerate(nodes):
                    if n["op"] == "leaf" and n["kind"] != "const":
                        tensors[i] = TensorParameter(*n["shape"],
                                                     initializer=ConstantTensorInitializer(actual(n, which)))
                        if n["kind"] == "ref" or uses[i] > 1:
                            comp.compile_parameter(Parameter.from_input(tensors[i])).reset_parameters()

                def use(i, which=which, tensors=tensors):
                    n = nodes[i]
                    if n["op"] == "leaf":
                        if n["kind"] == "const":
                            return Parameter.from_input(ConstantParameter(*n["shape"], value=actual(n, which)))
                        if n["kind"] == "ref" or uses[i] > 1:
                            return Parameter.from_input(ReferenceParameter(tensors[i]))
                        return Parameter.from_input(tensors[i])
                    built = [use(a - 1) for a in n["args"]]
                    sn = sym_node(n, [nodes[a - 1]["shape"] for a in n["args"]], h + i)
                    return Parameter.from_nary(sn, *sym_args(n, built))
                roots.append(use(len(nodes) - 1))
            ns = max(ki, 2)
            emb = EmbeddingLayer(Scope([0]), ki, num_states=ns, weight=Parameter.from_input(
                ConstantParameter(ki, ns, value=np.eye(ns)[:ki])))
            sums = [SumLayer(ki, ko, arity=1, weight=r) for r in roots]
            circ = Circuit([emb] + sums, {sl: [emb] for sl in sums}, sums)
            cc = comp.compile(circ)
            with torch.no_grad():
                out = cc(torch.arange(ki).reshape(-1, 1))          # (ki, 2, ko): out[j, o, :] = W_o[:, j]
            res["evals"] += 1
            if tuple(out.shape) != (ki, 2, ko):
                fail("circuit_shape", op=last["op"], fold=fold, optimize=opt,
                     detail=f"output shape {tuple(out.shape)} expected {(ki, 2, ko)}")
                continue
            for o, which in enumerate(("a", "b")):
                obs = out[:, o, :].numpy().T
                ok, exp = compare(last, which, obs)
                if not ok:
                    fail("circuit_value", op=last["op"], ops=[n["op"] for n in nodes], fold=fold, optimize=opt,
                         axis=last["axis"],
                         detail=f"fold={fold} optimize={opt} valuation {which}: the parameter graph used as a "
                                f"sum weight evaluates to {obs.tolist()} expected {exp.tolist()} "
                                f"(dom {last['dom']})"[:600])
                    break
        except Exception as e:  # pylint: disable=broad-except
            fail("circuit_raise", op=last["op"], ops=[n["op"] for n in nodes], fold=fold, optimize=opt,
                 detail=repr(e)[:300], trace=traceback.format_exc()[-600:])


def worker(args):
    beh, tier, seed, opts = args
    try:
        return replay(beh, tier, seed, opts)
    except Exception as e:  # pylint: disable=broad-except
        return {"hash": semantic.beh_hash(beh), "evals": 0, "refused": 0, "tags": [],
                "failures": [{"kind": "harness_error", "detail": repr(e),
                              "trace": traceback.format_exc()[-1500:]}]}


EXACT = {"sum", "had", "kron", "outerprod", "outersum", "index", "square", "clamp", "conj", "rsum",
         "rprod", "mix", "polyprod", "polydiff"}
CHART = {"exp", "log", "softplus", "sigmoid", "ssigmoid", "softmax", "logsoftmax", "rlse"}


def configurations(tier, seed):
    q = tier == "quick"

    def em(a, b=1):
        return dict(EmitMod=a if q else b, EmitRes=seed)
    return {
        "a_single_nodes": dict(Shapes={(2,), (3,), (2, 3), (3, 2), (1, 2), (2, 1, 2), (2, 2, 3)},
                               MaxLeaves=2, MaxNodes=3, OpSet=EXACT | CHART, LogLeaves=True,
                               **em(9, 1)),
        "b1_comp_linear": dict(Shapes={(2, 2)}, MaxLeaves=2, MaxNodes=4,
                               OpSet={"sum", "had", "kron", "outerprod", "index", "rsum", "square"},
                               LogLeaves=False, **em(150, 10)),
        "b2_comp_charts": dict(Shapes={(2, 3)}, MaxLeaves=2, MaxNodes=4,
                               OpSet={"softmax", "logsoftmax", "rlse", "exp", "log", "outersum",
                                      "sum", "index"},
                               LogLeaves=True, **em(150, 10)),
        "b3_comp_misc": dict(Shapes={(2, 2)}, MaxLeaves=2, MaxNodes=4,
                             OpSet={"mix", "polyprod", "polydiff", "rprod", "clamp", "conj", "sigmoid",
                                    "softplus", "ssigmoid"},
                             LogLeaves=True, **em(100, 10)),
        # the two parameter-graph optimisation patterns (log o softmax, reduce-sum o outer product),
        # every axis, as weights of circuits compiled with optimize=True (step iv of the replay)
        "e1_opt_logsoftmax": dict(Shapes={(2, 3), (3, 2)}, MaxLeaves=1, MaxNodes=3, LeafKinds={"tensor"},
                                  OpSet={"softmax", "log"}, LogLeaves=True, EmitMod=1, EmitRes=0),
        "e2_opt_sum_outer": dict(Shapes={(2, 2, 3), (2, 3, 2)}, MaxLeaves=2, MaxNodes=4, LeafKinds={"tensor"},
                                 OpSet={"outerprod", "rsum"}, LogLeaves=False, **em(4, 1)),
        "c_gaussian": dict(Shapes={(2,), (3,)}, MaxLeaves=4, MaxNodes=5, LeafKinds={"tensor"},
                           OpSet={"gmean", "gvar"}, LogLeaves=False, PosLeaves=True, **em(2, 1)),
        "d_poly": dict(Shapes={(2, 3), (1, 2), (2, 1)}, MaxLeaves=2, MaxNodes=4,
                       OpSet={"polyprod", "polydiff", "sum"}, LogLeaves=False, **em(8, 1)),
    }


def run(pid, tier, seed, rule, assumptions):
    rep = runner.Report(pid, tier, seed)
    rep.assumptions = assumptions
    tags = set()
    for name, consts in configurations(tier, seed).items():
        consts.setdefault("LeafKinds", {"tensor", "const", "ref"})
        consts.setdefault("PosLeaves", False)
        mod, cf = configs.write(f"{pid}_{tier}_{name}", "ParamSys", consts,
                                invariants=["TypeOK", "EmitInv"])
        try:
            pay, stats = tlcrun.run_tlc(mod, cf, f"{pid}_{name}", timeout=3000, coverage=False)
        except tlcrun.TLCError as e:
            rep.machinery_errors.append(str(e)[-1500:])
            continue
        rep.add_tlc(name, stats)
        behs = pay["VP"]
        if not behs:
            rep.machinery_errors.append(f"configuration {name} emitted no behaviour (vacuous)")
            continue
        rep.tlc_runs[-1]["behaviours_emitted"] = len(behs)
        results = runner.pmap(worker, [(b, tier, seed, {}) for b in behs])
        if len(rep.samples) < 4:
            b0 = behs[len(behs) // 2]
            rep.samples.append({"config": name, "nodes": [
                {k: n[k] for k in ("op", "kind", "args", "axis", "p1", "p2", "idx", "shape", "dom")}
                for n in b0["nodes"]], "expected_root_values": b0["nodes"][-1]["a"][:12]})
        for b, r in zip(behs, results):
            rep.replayed += 1
            rep.evaluations += r["evals"]
            tags.update(r.get("tags", []))
            fs = []
            for f in r["failures"]:
                if f["kind"] == "harness_error":
                    rep.machinery_errors.append(f["detail"] + f.get("trace", ""))
                    continue
                sig = {"kind": f["kind"], "op": f.get("op"), "axis": f.get("axis")}
                if rep.known_only(sig):
                    continue
                fs.append((sig, f))
            if fs:
                sig, f = fs[0]
                rep.failure(sig, {"hash": r["hash"], "engine": "param-replay", "config": name,
                                  "behaviour": b, "failures": [x[1] for x in fs]},
                            f"{f['kind']} op={f.get('op')} graph={[n['op'] for n in b['nodes']]} "
                            f"{f.get('detail', '')[:400]}")
    rep.extra["node_types_exercised"] = sorted(tags)
    return rep.finish(rule, exhaustive=(tier == "thorough"))


def replay_file(path, pid):
    with open(path) as f:
        obj = json.load(f)
    r = replay(obj["behaviour"], "thorough", 0, {})
    print(json.dumps(r["failures"], indent=1)[:4000])
    if r["failures"]:
        print(f"VIOLATION property={pid} replay={path}")
        return 1
    print("replay: no failure reproduced")
    return 0
