"""Regenerates /verif/MANIFEST.json from the registry (python -m harness.manifest)."""
import json
import os

from . import registry

VERIF = os.path.dirname(os.path.dirname(os.path.abspath(__file__)))

ALL = [f"C{n:02d}" for n in range(1, 21)]


def build():
    checks = []
    for pid in ALL:
        if pid not in registry.PROPS:
            continue
        meta = registry.META[pid]
        checks.append({
            "property_id": pid,
            "quick_cmd": f"./check {pid} --tier quick",
            "thorough_cmd": f"./check {pid} --tier thorough",
            "evidence_file": f"evidence/{pid}.json",
            "replay_cmd_template": f"./check {pid} --replay {{path}}",
            "engine": meta.get("engine", "tlc-spec+replay"),
            "level_claimed": {
                "category": "model_checking",
                "text": meta["text"],
                "design_ref": meta.get("design_ref", "DESIGN.md section 6"),
            },
            "level_note": meta["note"],
            "technique": meta["technique"],
        })
    na = [{"property_id": pid, "reason": registry.NOT_APPLICABLE.get(
        pid, "not claimed yet: the specification and binding for this property are not built")}
          for pid in ALL if pid not in registry.PROPS]
    man = {
        "version": 1,
        "setup_cmd": "./check --setup",
        "hooks": {
            "guard": "CIRKIT_VERIF",
            "enable": "CIRKIT_VERIF=1 is exported by ./check; cirkit is imported from /repo's "
                      "working tree (PYTHONPATH=/repo), there is no build step",
            "baseline_off_cmd": "cd /repo && /venv/bin/python -m pytest -ra -q -p no:cacheprovider "
                                "--timeout=900 --continue-on-collection-errors",
            "source_commits": registry.HOOK_COMMITS,
            "add_only": True,
        },
        "engines": [
            {"name": "tlc-spec", "path": "specs/",
             "kind_free_text": "explicit TLA+ specification (reference semantics, state machines, "
                               "trace specifications) checked with TLC"},
            {"name": "replay", "path": "harness/",
             "kind_free_text": "conformance: TLC-emitted behaviours replayed into cirkit through "
                               "its public API; recorded ndjson traces validated by Trace*.tla"},
        ],
        "checks": checks,
        "not_applicable": na,
        "notes": "All verdict-bearing expectations are computed by TLC from specs/*.tla; see "
                 "DESIGN.md. known_findings.json lists recorded defects and fix: commits.",
    }
    return man


def main():
    man = build()
    with open(os.path.join(VERIF, "MANIFEST.json"), "w") as f:
        json.dump(man, f, indent=1)
    print(f"MANIFEST.json: {len(man['checks'])} checks, {len(man['not_applicable'])} not claimed")


if __name__ == "__main__":
    main()
