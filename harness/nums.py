"""Decoding of the specification's exact numbers (dyadic rationals, complex dyadics)."""
from fractions import Fraction


def dy(p):
    """[n, e] -> Fraction n / 2**e"""
    return Fraction(int(p[0]), 2 ** int(p[1]))


def cdy(c):
    """[[n,e],[n,e]] -> (Fraction re, Fraction im)"""
    return dy(c[0]), dy(c[1])


def cfloat(c):
    re, im = cdy(c)
    return complex(float(re), float(im))


def is_real(c):
    return int(c[1][0]) == 0


def matrix_complex(m):
    """matrix of complex dyadics -> nested list of python complex"""
    return [[cfloat(e) for e in row] for row in m]


def matrix_is_real(m):
    return all(is_real(e) for row in m for e in row)


def matrix_nonneg(m):
    return all(is_real(e) and int(e[0][0]) >= 0 for row in m for e in row)
