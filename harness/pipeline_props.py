"""C18: compiler registry and pipeline contexts.

Direction A: TLC explores specs/Pipeline.tla (contexts, operator-registry variable, symbolic <->
compiled bijection, memoised operand-first compilation, operators on compiled circuits) and prints
witness histories in which every call is followed by the abstract state after it.  The replayer
executes each call on real PipelineContext objects and compares the projected state after EACH call.

Direction B: a seeded random driver runs long sessions on the real objects (exceptions escaping
`with` blocks included), records one ndjson event per call with the ids the implementation
answered, and specs/TracePipeline.tla validates the traces against the same actions.
"""
import json
import os
import random
import traceback

import torch

import cirkit.pipeline as P
import cirkit.symbolic.functional as SF
from cirkit.pipeline import PipelineContext
from cirkit.symbolic.circuit import Circuit
from cirkit.symbolic.layers import EmbeddingLayer, SumLayer
from cirkit.symbolic.registry import OPERATOR_REGISTRY
from cirkit.utils.scope import Scope

from . import runner, semantic, tlcrun

FLAGSETS = [
    dict(semiring="sum-product", fold=False, optimize=False),
    dict(semiring="lse-sum", fold=True, optimize=True),
    dict(semiring="complex-lse-sum", fold=True, optimize=False),
    dict(semiring="sum-product", fold=False, optimize=True),
]


class Failure(Exception):
    pass


class World:
    """Real objects behind one behaviour."""

    def __init__(self, nctx, h):
        self.default = P._PIPELINE_CONTEXT.get()          # pylint: disable=protected-access
        self.default_registry = OPERATOR_REGISTRY.get()
        self.ctx = {0: self.default}
        for c in range(1, nctx + 1):
            self.ctx[c] = PipelineContext(backend="torch", **FLAGSETS[(h + c) % len(FLAGSETS)])
        self.syms = []            # symbolic circuits, index s-1
        self.objs = {}            # (c, s) -> compiled object first seen
        self.order = {c: [] for c in self.ctx}
        self.prev_order = {}
        self._wrapped = []
        for c, ctx in self.ctx.items():
            comp = ctx._compiler  # pylint: disable=protected-access
            orig = comp.register_compiled_circuit

            def wrapper(sc, cc, _orig=orig, _c=c):
                _orig(sc, cc)
                self.order[_c].append(sc)
            comp.register_compiled_circuit = wrapper       # instance-level, public method
            self._wrapped.append(comp)

    def close(self):
        for comp in self._wrapped:
            try:
                del comp.register_compiled_circuit
            except AttributeError:
                pass

    def new_base(self):
        e = EmbeddingLayer(Scope([0]), 1, num_states=2)
        s = SumLayer(1, 1, arity=1)
        self.syms.append(Circuit([e, s], {s: [e]}, [s]))

    def sym_index(self, sc):
        for i, s in enumerate(self.syms):
            if s is sc:
                return i + 1
        return None

    def apply_sym(self, op, args):
        a = [self.syms[k - 1] for k in args]
        if op == "integrate":
            return SF.integrate(a[0])
        if op == "conjugate":
            return SF.conjugate(a[0])
        if op == "concatenate":
            return SF.concatenate(a)
        return SF.multiply(a[0], a[1])

    def step(self, ev):
        a = ev["a"]
        if a == "NewBase":
            self.new_base()
        elif a == "SymOp":
            self.syms.append(self.apply_sym(ev["op"], ev["args"]))
        elif a == "Enter":
            self.ctx[ev["c"]].__enter__()
        elif a == "Exit":
            r = self.ctx[ev["c"]].__exit__(None, None, None)
            if r:
                raise Failure("__exit__ returned a true value")
        elif a == "ExitExc":
            try:
                raise KeyError("escaping")
            except KeyError as e:
                r = self.ctx[ev["c"]].__exit__(type(e), e, e.__traceback__)
            if r:
                raise Failure("__exit__ swallowed the escaping exception")
        elif a == "Compile":
            sc = self.syms[ev["s"] - 1]
            cc = P.compile(sc) if ev["implicit"] else self.ctx[ev["c"]].compile(sc)
            again = self.ctx[ev["c"]].compile(sc)
            if again is not cc:
                raise Failure("compiling the same symbolic circuit again returned another object")
        elif a == "CompOp":
            ctx = self.ctx[ev["c"]]
            ccs = [ctx.get_compiled_circuit(self.syms[k - 1]) for k in ev["args"]]
            kw = {} if ev["implicit"] else {"ctx": ctx}
            fn = getattr(P, ev["op"])
            cc = fn(*ccs, **kw)
            sc = ctx.get_symbolic_circuit(cc)
            if self.sym_index(sc) is not None:
                raise Failure("operator on compiled circuits returned an already known circuit")
            if sc.operation is None or tuple(sc.operation.operands) != tuple(
                    self.syms[k - 1] for k in ev["args"]):
                raise Failure("the result is not the symbolic operator applied to the symbolic "
                              "circuits of the arguments")
            self.syms.append(sc)
        elif a == "BadOp":
            cc = self.ctx[ev["from"]].get_compiled_circuit(self.syms[ev["s"] - 1])
            try:
                self.ctx[ev["c"]].conjugate(cc)
            except ValueError:
                return
            raise Failure("operator accepted a compiled circuit of another context")
        else:
            raise ValueError(a)

    def project_and_compare(self, post):
        act = P._PIPELINE_CONTEXT.get()                      # pylint: disable=protected-access
        if act is not self.ctx[post["active"]]:
            who = [c for c, x in self.ctx.items() if x is act]
            raise Failure(f"active context is {who} expected {post['active']}")
        reg = OPERATOR_REGISTRY.get()
        want = self.default_registry if post["active"] == 0 else \
            self.ctx[post["active"]]._op_registry           # pylint: disable=protected-access
        if reg is not want:
            raise Failure(f"operator registry is not the one of context {post['active']}")
        if len(self.syms) != post["nsyms"]:
            raise Failure(f"{len(self.syms)} symbolic circuits, expected {post['nsyms']}")
        seen = {}
        for c, ctx in self.ctx.items():
            col = post["comp"][str(c)]
            for s, sc in enumerate(self.syms, start=1):
                comp = col[s - 1] != 0
                if bool(ctx.is_compiled(sc)) != comp:
                    raise Failure(f"is_compiled(circuit {s}) in context {c} is {not comp}")
                if not comp:
                    continue
                cc = ctx.get_compiled_circuit(sc)
                if ctx[sc] is not cc:
                    raise Failure("ctx[sc] differs from get_compiled_circuit(sc)")
                first = self.objs.setdefault((c, s), cc)
                if first is not cc:
                    raise Failure(f"compiled object of circuit {s} in context {c} was replaced")
                if not ctx.has_symbolic(cc) or ctx.get_symbolic_circuit(cc) is not sc:
                    raise Failure(f"get_symbolic(get_compiled(circuit {s})) is not circuit {s} in context {c}")
                if id(cc) in seen:
                    raise Failure(f"one compiled object for {seen[id(cc)]} and {(c, s)}")
                seen[id(cc)] = (c, s)
                for d, other in self.ctx.items():
                    if d != c and other.has_symbolic(cc):
                        raise Failure(f"compiled object of context {c} is known to context {d}")
            # compile order: append-only, exactly the circuits the model compiled, each once,
            # operands before the circuits derived from them (any such order is admissible)
            got = [self.sym_index(sc) for sc in self.order[c]]
            want = post["order"][str(c)]
            prev = self.prev_order.get(c, [])
            if got[:len(prev)] != prev:
                raise Failure(f"context {c}: compile log {got} does not extend {prev}")
            if sorted(x or 0 for x in got) != sorted(want):
                raise Failure(f"context {c} compiled circuits {got}, expected the circuits {want}")
            for k, s in enumerate(got):
                op = self.syms[s - 1].operation
                for o in (op.operands if op is not None else ()):
                    if self.sym_index(o) not in got[:k]:
                        raise Failure(f"context {c}: circuit {s} compiled before its operand "
                                      f"{self.sym_index(o)} (order {got})")
            self.prev_order[c] = got


def replay(beh, tier, seed, opts):
    h = int(semantic.beh_hash(beh), 16) + seed
    res = {"hash": semantic.beh_hash(beh), "evals": 0, "failures": [], "refused": 0, "tags": []}
    nctx = max([int(k) for k in beh["hist"][0]["post"]["comp"].keys()])
    w = World(nctx, h)
    entered = []
    try:
        for n, st in enumerate(beh["hist"]):
            ev = st["ev"]
            try:
                w.step(ev)
                if ev["a"] == "Enter":
                    entered.append(ev["c"])
                elif ev["a"] in ("Exit", "ExitExc"):
                    entered.pop()
                res["evals"] += 1
                w.project_and_compare(st["post"])
            except Failure as f:
                res["failures"].append({"kind": "pipeline", "step": n, "action": ev["a"],
                                        "detail": str(f)})
                break
            except Exception as e:  # pylint: disable=broad-except
                res["failures"].append({"kind": "pipeline_raise", "step": n, "action": ev["a"],
                                        "detail": repr(e)[:300],
                                        "trace": traceback.format_exc()[-600:]})
                break
    finally:
        # leave the process-wide context variables as we found them
        while entered:
            try:
                w.ctx[entered.pop()].__exit__(None, None, None)
            except Exception:  # pylint: disable=broad-except
                break
        w.close()
    return res


def worker(args):
    beh, tier, seed, opts = args
    torch.manual_seed(seed)
    try:
        return replay(beh, tier, seed, opts)
    except Exception as e:  # pylint: disable=broad-except
        return {"hash": semantic.beh_hash(beh), "evals": 0, "refused": 0, "tags": [],
                "failures": [{"kind": "harness_error", "detail": repr(e),
                              "trace": traceback.format_exc()[-1500:]}]}


# ------------------------------------------------------------------------------ direction B
def record_session(seed, nsteps, nctx=3, maxsyms=8):
    """Random session on the real objects; returns the list of events (ndjson records).  Every
    event carries the arguments and what the implementation answered (ids)."""
    rnd = random.Random(seed)
    w = World(nctx, seed)
    events = []
    stack = []
    ids = {}                 # id(compiled object) -> small integer, in order of first sight

    def oid(cc):
        return ids.setdefault(id(cc), len(ids) + 1)

    def active_id():
        act = P._PIPELINE_CONTEXT.get()                      # pylint: disable=protected-access
        for c, x in w.ctx.items():
            if x is act:
                return c
        return -1

    def registry_id():
        reg = OPERATOR_REGISTRY.get()
        if reg is w.default_registry:
            return 0
        for c, x in w.ctx.items():
            if c and x._op_registry is reg:                  # pylint: disable=protected-access
                return c
        return -1

    def snapshot(ev):
        ev["active"] = active_id()
        ev["registry"] = registry_id()
        ev["nsyms"] = len(w.syms)
        ev["comp"] = [[(oid(ctx.get_compiled_circuit(sc)) if ctx.is_compiled(sc) else 0)
                       for sc in w.syms] for c, ctx in sorted(w.ctx.items())]
        ev["order"] = [[w.sym_index(sc) or 0 for sc in w.order[c]] for c in sorted(w.ctx)]
        events.append(ev)

    try:
        for _ in range(nsteps):
            choices = ["NewBase"] if len(w.syms) < maxsyms else []
            usable = [i + 1 for i, s in enumerate(w.syms)
                      if s.operation is None
                      or s.operation.operator.name not in ("INTEGRATION", "CONCATENATE")]
            if usable and len(w.syms) < maxsyms:
                choices += ["SymOp", "CompOp", "CompOp"]
            if w.syms:
                choices += ["Compile", "Compile", "BadOp"]
            if len(stack) < nctx:
                choices += ["Enter"]
            if stack:
                choices += ["Exit", "ExitExc"]
            a = rnd.choice(choices)
            ev = {"a": a}
            if a == "NewBase":
                ev["s"] = len(w.syms) + 1
            elif a == "SymOp":
                ev["op"] = rnd.choice(["integrate", "conjugate", "multiply", "concatenate"])
                ev["args"] = [rnd.choice(usable)
                              for _ in range(2 if ev["op"] in ("multiply", "concatenate") else 1)]
                ev["s"] = len(w.syms) + 1
            elif a == "Enter":
                ev["c"] = rnd.choice([c for c in range(1, nctx + 1) if c not in stack])
            elif a in ("Exit", "ExitExc"):
                ev["c"] = stack[-1]
            elif a == "Compile":
                ev["implicit"] = rnd.random() < 0.5
                ev["c"] = (stack[-1] if stack else 0) if ev["implicit"] else rnd.randrange(0, nctx + 1)
                ev["s"] = rnd.randrange(1, len(w.syms) + 1)
            elif a == "CompOp":
                ev["implicit"] = rnd.random() < 0.5
                c = (stack[-1] if stack else 0) if ev["implicit"] else rnd.randrange(0, nctx + 1)
                known = [s for s in usable if w.ctx[c].is_compiled(w.syms[s - 1])]
                if not known:
                    continue
                ev["c"] = c
                ev["op"] = rnd.choice(["integrate", "conjugate", "multiply", "concatenate"])
                ev["args"] = [rnd.choice(known)
                              for _ in range(2 if ev["op"] in ("multiply", "concatenate") else 1)]
                ev["s"] = len(w.syms) + 1
            elif a == "BadOp":
                cands = [(c, d, s) for c in w.ctx for d in w.ctx if c != d
                         for s in range(1, len(w.syms) + 1) if w.ctx[d].is_compiled(w.syms[s - 1])]
                if not cands:
                    continue
                ev["c"], ev["from"], ev["s"] = rnd.choice(cands)
            ev["ok"] = True
            try:
                w.step(ev)
            except Failure as f:
                ev["ok"] = False
                ev["why"] = str(f)
            if a == "Enter":
                stack.append(ev["c"])
            elif a in ("Exit", "ExitExc"):
                stack.pop()
            snapshot(ev)
    finally:
        while stack:
            try:
                w.ctx[stack.pop()].__exit__(None, None, None)
            except Exception:  # pylint: disable=broad-except
                break
        w.close()
    return events


def session_worker(args):
    seed, nsteps = args
    torch.manual_seed(seed)
    try:
        return record_session(seed, nsteps)
    except Exception as e:  # pylint: disable=broad-except
        return [{"a": "HarnessError", "why": repr(e) + traceback.format_exc()[-800:]}]


def validate_traces(rep, sessions, tag):
    """Writes the sessions as one ndjson file and lets TLC (TracePipeline.tla) accept or reject
    each of them; returns the list of (tid, line, clause) rejections."""
    os.makedirs(tlcrun.WORK, exist_ok=True)
    path = os.path.join(tlcrun.WORK, f"trace_pipeline_{tag}_{os.getpid()}.ndjson")
    with open(path, "w") as f:
        for tid, evs in enumerate(sessions, start=1):
            for n, ev in enumerate(evs, start=1):
                rec = dict(ev)
                rec["tid"] = tid
                rec["seq"] = n
                for k in ("c", "s", "from"):
                    rec.setdefault(k, 0)
                rec.setdefault("op", "")
                rec.setdefault("args", [])
                rec.setdefault("implicit", False)
                rec.pop("why", None)
                f.write(json.dumps(rec) + "\n")
    pay, stats = tlcrun.run_tlc("TracePipeline.tla", "TracePipeline.cfg", f"tracepipe_{tag}",
                                workers=1, timeout=3000, coverage=False,
                                env_extra={"TRACE_FILE": path, "TRACE_N": str(len(sessions))})
    os.remove(path)
    return pay, stats


def run(pid, tier, seed, rule, assumptions):
    from . import configs  # pylint: disable=import-outside-toplevel
    rep = runner.Report(pid, tier, seed)
    rep.assumptions = assumptions
    q = tier == "quick"
    confs = {
        "a_two_ctx": dict(Ctxs={1, 2}, MaxSyms=3, MaxLen=6 if q else 7, EmitMod=350 if q else 60, EmitRes=seed),
        "b_three_ctx": dict(Ctxs={1, 2, 3}, MaxSyms=2, MaxLen=6 if q else 7, EmitMod=700 if q else 100,
                            EmitRes=seed),
    }
    for name, consts in confs.items():
        mod, cf = configs.write(f"{pid}_{tier}_{name}", "Pipeline", consts,
                                invariants=["TypeOK", "NoReentry", "Bijective", "OperandsFirst",
                                            "CompiledOnce", "OrderMatches", "EmitInv"],
                                properties=["Stable"], constraints=["Bound"], view="view")
        try:
            pay, stats = tlcrun.run_tlc(mod, cf, f"{pid}_{name}", timeout=3000, coverage=(tier == "thorough"))
        except tlcrun.TLCError as e:
            rep.machinery_errors.append(str(e)[-1500:])
            continue
        rep.add_tlc(name, stats)
        behs = pay["VP"]
        if not behs:
            rep.machinery_errors.append(f"configuration {name} emitted no behaviour (vacuous)")
            continue
        rep.tlc_runs[-1]["behaviours_emitted"] = len(behs)
        results = runner.pmap(worker, [(b, tier, seed, {}) for b in behs])
        if len(rep.samples) < 3:
            rep.samples.append({"config": name,
                                "history": [s["ev"] for s in behs[len(behs) // 2]["hist"]],
                                "final_state": behs[len(behs) // 2]["hist"][-1]["post"]})
        for b, r in zip(behs, results):
            rep.replayed += 1
            rep.evaluations += r["evals"]
            for f in r["failures"]:
                if f["kind"] == "harness_error":
                    rep.machinery_errors.append(f["detail"] + f.get("trace", ""))
                    continue
                sig = {"kind": f["kind"], "action": f.get("action"), "detail": f.get("detail", "")[:80]}
                rep.failure(sig, {"hash": r["hash"], "engine": "pipeline-replay", "config": name,
                                  "behaviour": b, "failures": [f]},
                            f"{f['kind']} step={f.get('step')} action={f.get('action')} "
                            f"{f.get('detail', '')[:300]} history="
                            f"{json.dumps([s['ev'] for s in b['hist']])[:500]}")
                break
    # ---------------- direction B: recorded sessions validated by TracePipeline.tla
    nses, nsteps = (150, 40) if q else (1500, 80)
    sessions = runner.pmap(session_worker, [(seed * 100003 + k, nsteps) for k in range(nses)],
                           chunksize=4)
    bad = [s for s in sessions if s and s[0].get("a") == "HarnessError"]
    for s in bad[:3]:
        rep.machinery_errors.append(s[0]["why"])
    sessions = [s for s in sessions if s and s[0].get("a") != "HarnessError"]
    try:
        pay, stats = validate_traces(rep, sessions, f"{pid}_{tier}")
        rep.add_tlc("trace_validation", stats)
        accepted = {int(x["tid"]) for x in pay["ACCEPT"]}
        rejected = {int(x["tid"]): x for x in pay["REJECT"]}
        rep.extra["traces_recorded"] = len(sessions)
        rep.extra["trace_events"] = sum(len(s) for s in sessions)
        rep.extra["traces_accepted"] = len(accepted)
        if len(accepted) + len(rejected) != len(sessions):
            rep.machinery_errors.append(
                f"trace validation verdicts {len(accepted)}+{len(rejected)} != {len(sessions)} traces; "
                + stats.get("tail", "")[-800:])
        rep.replayed += len(accepted) + len(rejected)
        for tid, x in sorted(rejected.items()):
            evs = sessions[tid - 1]
            rep.failure({"kind": "trace_rejected", "action": evs[min(int(x["line"]), len(evs)) - 1]["a"]},
                        {"hash": f"trace{tid}_{seed}", "engine": "pipeline-trace", "events": evs,
                         "rejected_at": x},
                        f"trace {tid} rejected at event {x['line']} "
                        f"({json.dumps(evs[min(int(x['line']), len(evs)) - 1])[:400]})")
        if sessions and len(rep.samples) < 4:
            rep.samples.append({"recorded_trace_prefix": sessions[0][:6]})
    except tlcrun.TLCError as e:
        rep.machinery_errors.append(str(e)[-1500:])
    return rep.finish(rule, exhaustive=False)


def replay_file(path, pid):
    with open(path) as f:
        obj = json.load(f)
    if obj.get("engine") == "pipeline-trace":
        print("recorded trace (direction B); rejected at", obj.get("rejected_at"))
        print(f"VIOLATION property={pid} replay={path}")
        return 1
    r = replay(obj["behaviour"], "thorough", 0, {})
    print(json.dumps(r["failures"], indent=1)[:4000])
    if r["failures"]:
        print(f"VIOLATION property={pid} replay={path}")
        return 1
    print("replay: no failure reproduced")
    return 0
