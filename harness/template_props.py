"""C20: model templates compute the formulas they document (direction B).

The driver builds circuits with the real template functions (cp, tucker, tensor_train, hmm,
fully_factorized) over a seeded argument space, loads generic integers into every symbolic tensor,
evaluates the compiled circuit on every index tuple / assignment (rotating flag combinations), reads
the factor tables by their documented roles from the symbolic circuit, and lets TLC
(specs/TraceTemplates.tla) recompute the documented contraction and compare.
"""
import itertools
import json
import random
import traceback

import numpy as np
import torch

from cirkit.backend.torch.compiler import TorchCompiler
from cirkit.symbolic.layers import CategoricalLayer, EmbeddingLayer, HadamardLayer, KroneckerLayer, SumLayer
from cirkit.symbolic.parameters import ConstantParameter, TensorParameter
from cirkit.templates import pgms, tensor_factorizations as tf
from cirkit.templates.utils import Parameterization

from . import rg_props, runner, tlcrun

torch.set_default_dtype(torch.float64)
NONE = Parameterization(activation="none", initialization="normal")
FLAGS = [("sum-product", False, False), ("sum-product", True, True), ("sum-product", True, False),
         ("sum-product", False, True), ("complex-lse-sum", True, True), ("complex-lse-sum", False, False)]


def leaf_of(param):
    """single-node parameter graphs only (activation 'none' or constants)"""
    nodes = list(param.nodes)
    if len(nodes) != 1 or not isinstance(nodes[0], TensorParameter):
        raise ValueError(f"unexpected parameter graph {nodes}")
    return nodes[0]


class Valuation:
    """generic small integers for every learnable tensor; constants keep their declared value"""

    def __init__(self, seed):
        self.rnd = np.random.RandomState(seed)
        self.values = {}

    def table(self, param, positive=False):
        leaf = leaf_of(param)
        if isinstance(leaf, ConstantParameter):
            v = leaf.initializer.value
            arr = np.broadcast_to(np.asarray(v, dtype=np.float64), leaf.shape).copy()
            return leaf, arr
        if id(leaf) not in self.values:
            lo = 1 if positive else -2
            self.values[id(leaf)] = (leaf, self.rnd.randint(lo, 4, size=leaf.shape).astype(np.float64))
        return self.values[id(leaf)]

    def load(self, compiler):
        for leaf, arr in self.values.values():
            t, idx = compiler.state.retrieve_compiled_parameter(leaf)
            with torch.no_grad():
                t()[idx].copy_(torch.from_numpy(arr))


def evaluate(circuit, shape, val, flags, positive):
    sem, fold, opt = flags
    comp = TorchCompiler(semiring=sem, fold=fold, optimize=opt)
    cc = comp.compile(circuit)
    val.load(comp)
    xs = torch.tensor(list(itertools.product(*[range(n) for n in shape])), dtype=torch.long)
    with torch.no_grad():
        out = cc(xs)
    if out.shape != (xs.shape[0], 1, 1):
        raise ValueError(f"output shape {tuple(out.shape)}")
    out = out[:, 0, 0]
    if sem != "sum-product":
        out = torch.exp(out)
        if out.is_complex():
            if float(out.imag.abs().max()) > 1e-6:
                raise ValueError("complex output for real parameters")
            out = out.real
    obs = out.numpy()
    r = np.round(obs)
    if not np.all(np.abs(obs - r) <= 1e-6 * np.maximum(1.0, np.abs(r))):
        raise ValueError(f"non-integer output {obs[:6]} for integer parameters")
    return [int(v) for v in r]


def ints(a):
    return np.asarray(a).astype(np.int64).tolist()


def rec_cp(rnd, tid):
    n = rnd.choice([2, 3])
    shape = [rnd.choice([2, 3]) for _ in range(n)]
    rank = rnd.choice([1, 2, 3])
    weighted = rnd.random() < 0.6
    kind_in = rnd.choice(["embedding", "categorical"])
    ip = {"weight": NONE} if kind_in == "embedding" else {"probs": NONE}
    c = tf.cp(tuple(shape), rank, input_layer=kind_in, input_params=ip,
              weight_param=NONE if weighted else None)
    val = Valuation(tid)
    positive = kind_in == "categorical"
    A = [None] * n
    w = None
    for sl in c.layers:
        if isinstance(sl, (EmbeddingLayer, CategoricalLayer)):
            (v,) = tuple(sl.scope)
            p = sl.weight if isinstance(sl, EmbeddingLayer) else sl.probs
            A[v] = val.table(p, positive)[1].T          # (I, R): A[x][r]
        elif isinstance(sl, SumLayer):
            w = val.table(sl.weight)[1][0]
    return c, shape, val, positive, {"kind": "cp", "A": [ints(a) for a in A], "w": ints(w),
                                     "args": f"cp(shape={shape}, rank={rank}, weighted={weighted}, {kind_in})"}


def rec_tucker(rnd, tid):
    n = rnd.choice([2, 3])
    shape = [rnd.choice([2, 3]) for _ in range(n)]
    rank = rnd.choice([1, 2])
    kind_in = rnd.choice(["embedding", "categorical"])
    ip = {"weight": NONE} if kind_in == "embedding" else {"probs": NONE}
    c = tf.tucker(tuple(shape), rank, input_layer=kind_in, input_params=ip, core_param=NONE)
    val = Valuation(tid)
    positive = kind_in == "categorical"
    A = [None] * n
    G = None
    for sl in c.layers:
        if isinstance(sl, (EmbeddingLayer, CategoricalLayer)):
            (v,) = tuple(sl.scope)
            p = sl.weight if isinstance(sl, EmbeddingLayer) else sl.probs
            A[v] = val.table(p, positive)[1].T
        elif isinstance(sl, SumLayer):
            G = val.table(sl.weight)[1][0]
    return c, shape, val, positive, {"kind": "tucker", "rank": rank, "A": [ints(a) for a in A],
                                     "G": ints(G), "args": f"tucker(shape={shape}, rank={rank}, {kind_in})"}


def rec_tt(rnd, tid):
    n = rnd.choice([2, 3, 4])
    shape = [rnd.choice([2, 3]) for _ in range(n)]
    rank = rnd.choice([1, 2, 3])
    c = tf.tensor_train(tuple(shape), rank, factor_param=NONE)
    val = Valuation(tid)
    by_var = {}
    for sl in c.layers:
        if isinstance(sl, EmbeddingLayer):
            (v,) = tuple(sl.scope)
            by_var.setdefault(v, []).append(sl)
        elif isinstance(sl, SumLayer):
            val.table(sl.weight)            # constants: nothing to load
    V1 = val.table(by_var[0][0].weight)[1].T                         # (I, R)
    rec = {"kind": "tt", "rank": rank, "V1": ints(V1), "Vin": [], "Vn": [[0]],
           "args": f"tensor_train(shape={shape}, rank={rank})"}
    if n >= 2:
        rec["Vn"] = ints(val.table(by_var[n - 1][0].weight)[1].T)
    for i in range(1, n - 1):
        # rank embedding layers E_k of shape (R, I): V_i[x][r][k] = E_k[r][x], k in listing order
        Es = [val.table(sl.weight)[1] for sl in by_var[i]]
        Vi = np.stack(Es, axis=-1)                                   # (R, I, K)
        rec["Vin"].append(ints(np.transpose(Vi, (1, 0, 2))))         # [x][r][k]
    return c, shape, val, False, rec


def rec_hmm(rnd, tid):
    n = rnd.choice([1, 2, 3, 4])
    order = list(range(n))
    rnd.shuffle(order)
    K = rnd.choice([1, 2, 3])
    cats = [rnd.choice([2, 3]) for _ in range(n)]
    c = pgms.hmm(order, input_layer="categorical", num_latent_states=K,
                 input_params={"probs": NONE},
                 input_layer_kwargs=[{"num_categories": k} for k in cats], weight_param=NONE)
    val = Valuation(tid)
    got_cats = [0] * n
    emis = {}
    sums = []
    for sl in c.topological_ordering():
        if isinstance(sl, CategoricalLayer):
            (v,) = tuple(sl.scope)
            got_cats[v] = int(sl.num_categories)
            emis[v] = val.table(sl.probs, True)[1]                   # (K, N): E[z][x]
        elif isinstance(sl, SumLayer):
            sums.append(val.table(sl.weight, True)[1])
    # the sum layers appear from the last time step to the first; the last one is the prior
    E = [ints(emis[order[t]]) for t in range(n)]
    pi = ints(sums[-1][0])
    T = [ints(w) for w in reversed(sums[:-1])]                       # T[t] for t = 1..n-1
    shape = [got_cats[v] for v in range(n)]
    return c, shape, val, True, {"kind": "hmm", "ord": order, "K": K, "E": E, "T": T + [[[0]]],
                                 "pi": pi, "cats": got_cats, "want_cats": cats,
                                 "args": f"hmm(ordering={order}, K={K}, num_categories per variable={cats})"}


def rec_ff(rnd, tid):
    n = rnd.choice([1, 2, 3, 4])
    c = pgms.fully_factorized(n, input_layer="categorical", input_params={"probs": NONE},
                              input_layer_kwargs={"num_categories": 2})
    val = Valuation(tid)
    P = [None] * n
    for sl in c.layers:
        if isinstance(sl, CategoricalLayer):
            (v,) = tuple(sl.scope)
            P[v] = val.table(sl.probs, True)[1][0]
    return c, [2] * n, val, True, {"kind": "ff", "P": [ints(p) for p in P],
                                   "args": f"fully_factorized({n})"}


def rec_logic(rnd, tid):
    """a random deterministic, decomposable formula (decision DAG over <= 4 variables)"""
    from cirkit.templates.logic.graph import (  # pylint: disable=import-outside-toplevel
        ConjunctionNode, DisjunctionNode, LiteralNode, LogicalCircuit, NegatedLiteralNode)
    nv = rnd.choice([1, 2, 3, 4])
    nodes, in_nodes, recs = [], {}, []
    lits = {}

    def lit(v, pos):
        if (v, pos) not in lits:
            n = LiteralNode(v) if pos else NegatedLiteralNode(v)
            nodes.append(n)
            recs.append({"t": "lit" if pos else "nlit", "v": v, "ins": []})
            lits[(v, pos)] = len(nodes)
        return lits[(v, pos)]

    def mk(kind, ins):
        n = ConjunctionNode() if kind == "and" else DisjunctionNode()
        nodes.append(n)
        in_nodes[n] = [nodes[i - 1] for i in ins]
        recs.append({"t": kind, "v": 0, "ins": list(ins)})
        return len(nodes)

    def gen(vs):
        vs = list(vs)
        x = vs[0]
        rest = vs[1:]
        if not rest:
            c = rnd.choice(["p", "n", "both"])
            if c == "p":
                return lit(x, True)
            if c == "n":
                return lit(x, False)
            return mk("or", [lit(x, True), lit(x, False)])

        def sub():
            k = rnd.randint(1, len(rest))
            return gen(sorted(rnd.sample(rest, k)))
        shape = rnd.choice(["both", "pos", "neg"])
        if shape == "pos":
            return mk("and", [lit(x, True), sub()])
        if shape == "neg":
            return mk("and", [lit(x, False), sub()])
        return mk("or", [mk("and", [lit(x, True), sub()]), mk("and", [lit(x, False), sub()])])

    order = list(range(nv))
    rnd.shuffle(order)
    root = gen(order)
    if recs[root - 1]["t"] in ("lit", "nlit"):
        # a formula that is a single literal has no inner node (degenerate: the logic graph is
        # rebuilt from its inner nodes only); use the tautology-free formula  x or (not x and ...)
        root = mk("or", [root])
    used = sorted({r["v"] for r in recs if r["t"] in ("lit", "nlit")})
    remap = {v: i for i, v in enumerate(used)}           # only the variables that appear
    # rebuild with contiguous variable ids
    nodes2, in2, idx = [], {}, {}
    for i, r in enumerate(recs, start=1):
        if r["t"] in ("lit", "nlit"):
            r["v"] = remap[r["v"]]
            n = LiteralNode(r["v"]) if r["t"] == "lit" else NegatedLiteralNode(r["v"])
        else:
            n = ConjunctionNode() if r["t"] == "and" else DisjunctionNode()
            in2[n] = [idx[k] for k in r["ins"]]
        idx[i] = n
        nodes2.append(n)
    lc = LogicalCircuit(nodes2, in2, [idx[root]])
    c = lc.build_circuit()
    shape = [2] * len(used)
    return c, shape, Valuation(tid), True, {"kind": "logic", "nodes": recs, "root": root,
                                           "args": f"logic formula over {len(used)} variables, {len(recs)} nodes"}


def rec_sdd(rnd, tid):
    """a random SDD over a right-linear vtree, written in the libsdd file format (root id 0, children
    before parents, true / false terminals) and loaded with SDD.load"""
    import os  # pylint: disable=import-outside-toplevel
    import tempfile  # pylint: disable=import-outside-toplevel
    from cirkit.templates.logic.sdd import SDD  # pylint: disable=import-outside-toplevel
    nv = rnd.choice([2, 3, 4])
    recs, lines = [], []          # recs: formula DAG for the specification; lines: (tag, rec index, payload)
    memo = {}

    def node(t, v=0, ins=()):
        key = (t, v, tuple(ins))
        if t in ("lit", "nlit", "top", "bot") and key in memo:
            return memo[key]
        recs.append({"t": t, "v": v, "ins": list(ins)})
        memo[key] = len(recs)
        return len(recs)

    def gen(vs):
        x, rest = vs[0], vs[1:]
        if not rest:
            c = rnd.choice(["p", "n", "t"])
            return node("lit", x) if c == "p" else node("nlit", x) if c == "n" else node("top")
        def sub():
            if rnd.random() < 0.2:
                return node("top")
            k = rnd.randint(1, len(rest))
            return gen(rest[len(rest) - k:])           # a suffix: respects the right-linear vtree
        shape = rnd.choice(["both", "both", "pos", "neg"])
        px, nx = node("lit", x), node("nlit", x)
        s1 = sub() if shape in ("both", "pos") else node("bot")
        s2 = sub() if shape in ("both", "neg") else node("bot")
        a1, a2 = node("and", 0, [px, s1]), node("and", 0, [nx, s2])
        d = node("or", 0, [a1, a2])
        lines.append((d, [(px, s1), (nx, s2)]))
        return d

    order = list(range(nv))
    rnd.shuffle(order)
    root = gen(order)
    used = sorted({r["v"] for r in recs if r["t"] in ("lit", "nlit")})
    remap = {v: i for i, v in enumerate(used)}
    for r in recs:
        if r["t"] in ("lit", "nlit"):
            r["v"] = remap[r["v"]]
    # sdd node ids: the root is 0; "and" records are elements, not sdd nodes
    sdd_nodes = [i for i, r in enumerate(recs, start=1) if r["t"] != "and"]
    ids = {root: 0}
    for i in sdd_nodes:
        if i != root:
            ids[i] = len(ids)
    text = ["c generated", f"sdd {len(sdd_nodes)}"]
    decisions = dict(lines)
    for i in sdd_nodes:                                # creation order is bottom-up
        r = recs[i - 1]
        if r["t"] == "top":
            text.append(f"T {ids[i]}")
        elif r["t"] == "bot":
            text.append(f"F {ids[i]}")
        elif r["t"] == "lit":
            text.append(f"L {ids[i]} {2 * r['v']} {r['v'] + 1}")
        elif r["t"] == "nlit":
            text.append(f"L {ids[i]} {2 * r['v']} {-(r['v'] + 1)}")
        else:
            el = decisions[i]
            text.append(f"D {ids[i]} {2 * len(el) + 1} {len(el)} " + " ".join(f"{ids[p]} {ids[q]}" for p, q in el))
    fd, path = tempfile.mkstemp(suffix=".sdd")
    try:
        with os.fdopen(fd, "w") as f:
            f.write("\n".join(text) + "\n")
        lc = SDD.load(path)
    finally:
        os.unlink(path)
    c = lc.build_circuit()
    shape = [2] * len(used)
    return c, shape, Valuation(tid), True, {"kind": "logic", "nodes": recs, "root": root,
                                           "args": f"sdd file over {len(used)} variables: " + " | ".join(text[1:])}


MAKERS = [rec_cp, rec_tucker, rec_tt, rec_hmm, rec_ff, rec_logic, rec_sdd]
EMPTY = {"A": [], "w": [], "G": [], "rank": 0, "V1": [], "Vin": [], "Vn": [], "ord": [], "K": 0,
         "E": [], "T": [], "pi": [], "cats": [], "want_cats": [], "P": [], "nodes": [], "root": 0,
         "mc": 0}


def record(args):
    tid, seed = args
    rnd = random.Random(seed * 7919 + tid)
    rec = dict(EMPTY)
    rec.update({"tid": tid, "ok": True, "shape": [], "obs": [], "kind": "cp", "algo": "template"})
    try:
        mk = MAKERS[tid % len(MAKERS)]
        c, shape, val, positive, fields = mk(rnd, tid)
        rec.update(fields)
        rec["algo"] = fields["kind"]
        rec["shape"] = [int(s) for s in shape]
        flags = [f for f in FLAGS if positive or f[0] == "sum-product" or True]
        fl = flags[(tid // len(MAKERS)) % len(flags)]
        rec["flags"] = list(fl)
        rec["obs"] = evaluate(c, shape, val, fl, positive)
        if rec["kind"] == "logic":
            import cirkit.symbolic.functional as SF  # pylint: disable=import-outside-toplevel
            comp = TorchCompiler(semiring=fl[0], fold=fl[1], optimize=fl[2])
            comp.compile(c)
            zc = comp.compile(SF.integrate(c))
            with torch.no_grad():
                z = zc().reshape(-1)[0]
            if fl[0] != "sum-product":
                z = torch.exp(z)
            z = float(z.real if z.is_complex() else z)
            if abs(z - round(z)) > 1e-6:
                raise ValueError(f"non-integer model count {z}")
            rec["mc"] = int(round(z))
    except Exception as e:  # pylint: disable=broad-except
        rec["ok"] = False
        rec["why"] = repr(e)[:300] + " | " + traceback.format_exc()[-500:]
    return rec


def run(pid, tier, seed, rule, assumptions):
    rep = runner.Report(pid, tier, seed)
    rep.assumptions = assumptions
    n = 400 if tier == "quick" else 6000
    recs = runner.pmap(record, [(k + 1, seed) for k in range(n)], chunksize=4)
    rg_props.validate(rep, recs, pid, tier, "TraceTemplates.tla", "TraceTemplates.cfg")
    kinds = {}
    for r in recs:
        kinds[r["algo"]] = kinds.get(r["algo"], 0) + 1
    rep.extra["records_per_template"] = kinds
    if not rep.samples:
        rep.samples.append({k: recs[0].get(k) for k in ("kind", "args", "shape", "obs", "flags")})
    return rep.finish(rule, exhaustive=False)


def replay_file(path, pid):
    return rg_props.replay_file(path, pid)
