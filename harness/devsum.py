"""Development aid: summarise evidence and replay files of a property."""
import collections, glob, json, sys
pid = sys.argv[1]
d = json.load(open(f'evidence/{pid}.json'))
print('wall', d['wall_s'], 'violations', d.get('violations'), 'replayed', d['coverage']['traces_validated_against_impl'])
for r in d['coverage']['tlc_runs']:
    print({k: v for k, v in r.items() if k != 'action_coverage'})
print('tags', d['coverage'].get('compiled_layer_tags'))
print('known', d['coverage'].get('known_findings_hit'), 'refusals', d['coverage'].get('operator_refusals'))
c = collections.Counter(); ex = {}
for f in glob.glob(f'replays/{pid}/*.json'):
    o = json.load(open(f))
    for fl in o.get('failures', []):
        k = (o.get('config'), fl['kind'], fl.get('op'), tuple(fl.get('flags') or ()), fl.get('detail', '')[:60])
        c[k] += 1; ex.setdefault(k, f)
for k, v in c.most_common(40):
    print(v, k, ex[k])
