"""C12: circuits built with normalised parameterisations are normalised.

Direction A (spec -> code): CircuitSys.tla with normalised valuation schemes; TLC checks NormInv
(every unit of every enumerated smooth and decomposable circuit sums to one over its scope and is
non-negative: the design argument) and the emitted behaviours are replayed as in C01 / C03
(evaluation and symbolic integration against the exact tables).

Direction B (code -> spec): the real templates (image_data, tabular_data, hmm, fully_factorized,
cp, tucker; every region-graph algorithm they offer, cp / cp-t / tucker, categorical / binomial /
gaussian inputs, mixing or dense n-ary sums) with their own random unconstrained parameters are
compiled, and the driver records, for each, whether the partition function is one (compiled
symbolic integrate, and brute force for small discrete circuits), whether values are non-negative
and log-space values finite on in-support inputs, before and after random parameter updates and a
reset; specs/TraceTemplates.tla accepts a record iff every clause holds.
"""
import itertools
import json
import random
import traceback

import numpy as np
import torch

import cirkit.symbolic.functional as SF
from cirkit.backend.torch.compiler import TorchCompiler
from cirkit.templates import data_modalities, pgms, tensor_factorizations as tf
from cirkit.templates.utils import Parameterization

from . import rg_props, runner, sem_props, tlcrun

torch.set_default_dtype(torch.float64)
SOFTMAX = Parameterization(activation="softmax", initialization="normal")
FLAGS = [("lse-sum", True, True), ("lse-sum", False, False), ("sum-product", True, False),
         ("sum-product", False, True), ("complex-lse-sum", True, True), ("lse-sum", True, False)]


SOFTMAX_DIR = Parameterization(activation="softmax", initialization="dirichlet")


def make(rnd, tid):
    """returns (circuit, description, domain sizes per variable or None if not enumerable)"""
    global SOFTMAX  # pylint: disable=global-statement
    k = tid % 7
    # the sum weights are softmax-activated; their initialisation method varies
    SOFTMAX = rnd.choice([Parameterization(activation="softmax", initialization="normal"),
                          SOFTMAX_DIR,
                          Parameterization(activation="softmax", initialization="uniform")])
    if k == 6:
        # a direct call of build_circuit with the weight factory of the (arity-1) sum layers only:
        # the n-ary sum layers are documented to use the same factory
        from cirkit.symbolic.layers import CategoricalLayer  # pylint: disable=import-outside-toplevel
        from cirkit.templates.region_graph import (  # pylint: disable=import-outside-toplevel
            LinearTree, PoonDomingos, QuadGraph, RandomBinaryTree)
        from cirkit.templates.utils import parameterization_to_factory  # pylint: disable=import-outside-toplevel
        which = rnd.choice(["qg", "pd", "rbt", "lt"])
        if which == "qg":
            rg, nv = QuadGraph((1, 2, 2)), 4
        elif which == "pd":
            rg, nv = PoonDomingos((1, 2, 2), delta=1), 4
        elif which == "rbt":
            rg, nv = RandomBinaryTree(4, num_repetitions=2, seed=rnd.randrange(100)), 4
        else:
            rg, nv = LinearTree(3, num_repetitions=2, randomize=True, seed=rnd.randrange(100)), 3
        sp = rnd.choice(["cp", "cp-t", "tucker"])
        ku = rnd.choice([1, 2])
        c = rg.build_circuit(
            input_factory=lambda scope, num_units: CategoricalLayer(scope, num_units, num_categories=2),
            sum_product=sp, sum_weight_factory=parameterization_to_factory(SOFTMAX),
            num_input_units=ku, num_sum_units=ku)
        return c, f"build_circuit({which}, {sp}, units={ku}, softmax sum_weight_factory only, init={SOFTMAX.initialization})", [2] * nv
    if k == 0:
        shape = rnd.choice([(1, 2, 2), (1, 3, 3), (1, 2, 3), (2, 2, 2), (1, 1, 4), (1, 4, 4)])
        rg = rnd.choice(["quad-tree-2", "quad-tree-4", "quad-graph", "random-binary-tree", "poon-domingos"])
        inp = rnd.choice(["categorical", "binomial", "gaussian"])
        sp = rnd.choice(["cp", "cp-t", "tucker"])
        ku = rnd.choice([1, 2, 3])
        if sp == "tucker" and rg == "quad-tree-4":
            ku = min(ku, 2)
        mix = rnd.random() < 0.5
        ip = {"probs": SOFTMAX} if inp == "categorical" and rnd.random() < 0.5 else None
        c = data_modalities.image_data(shape, rg, input_layer=inp, num_input_units=ku,
                                       sum_product_layer=sp, num_sum_units=ku, input_params=ip,
                                       sum_weight_param=SOFTMAX, use_mixing_weights=mix)
        return c, f"image_data({shape}, {rg}, {inp}, units={ku}, {sp}, mixing={mix}, probs_softmax={ip is not None})", None
    if k == 1:
        nf = rnd.choice([2, 3, 4, 5])
        ncat = rnd.choice([2, 3])
        sp = rnd.choice(["cp", "cp-t", "tucker"])
        ku = rnd.choice([1, 2, 3])
        mix = rnd.random() < 0.5
        per_feature = rnd.random() < 0.5
        layers = ([{"name": "categorical", "args": {"num_categories": ncat}} for _ in range(nf)]
                  if per_feature else {"name": "categorical", "args": {"num_categories": ncat}})
        c = data_modalities.tabular_data("random-binary-tree", num_features=nf, input_layers=layers,
                                         num_input_units=ku, sum_product_layer=sp, num_sum_units=ku,
                                         sum_weight_param=SOFTMAX, use_mixing_weights=mix)
        return c, f"tabular_data(rbt, features={nf}, categories={ncat}, units={ku}, {sp}, mixing={mix})", [ncat] * nf
    if k == 2:
        n = rnd.choice([1, 2, 3, 4])
        order = list(range(n))
        rnd.shuffle(order)
        K = rnd.choice([1, 2, 3])
        ncat = rnd.choice([2, 3])
        c = pgms.hmm(order, input_layer="categorical", num_latent_states=K,
                     input_layer_kwargs={"num_categories": ncat})
        return c, f"hmm({order}, K={K}, categories={ncat})", [ncat] * n
    if k == 3:
        n = rnd.choice([1, 2, 3, 4])
        c = pgms.fully_factorized(n, input_layer="categorical", input_layer_kwargs={"num_categories": 3})
        return c, f"fully_factorized({n})", [3] * n
    if k == 4:
        shape = tuple(rnd.choice([2, 3]) for _ in range(rnd.choice([2, 3])))
        rank = rnd.choice([1, 2, 3])
        c = tf.cp(shape, rank, input_layer="categorical", input_params={"probs": SOFTMAX},
                  weight_param=SOFTMAX)
        return c, f"cp({shape}, rank={rank}, softmax)", list(shape)
    shape = tuple(rnd.choice([2, 3]) for _ in range(rnd.choice([2, 3])))
    rank = rnd.choice([1, 2])
    c = tf.tucker(shape, rank, input_layer="categorical", input_params={"probs": SOFTMAX},
                  core_param=SOFTMAX)
    return c, f"tucker({shape}, rank={rank}, softmax)", list(shape)


def lin(out, sem):
    if sem == "sum-product":
        return out.detach().to(torch.complex128)
    return torch.exp(out.detach().to(torch.complex128))


def record(args):
    tid, seed = args
    rnd = random.Random(seed * 104729 + tid)
    torch.manual_seed(seed * 31 + tid)
    rec = dict(template_empty())
    rec.update({"tid": tid, "ok": True, "kind": "norm", "algo": "norm", "shape": [], "obs": [],
                "z_ok": True, "brute_ok": True, "nonneg_ok": True, "finite_ok": True,
                "step_ok": True, "reset_ok": True})
    try:
        c, desc, dom = make(rnd, tid)
        rec["args"] = desc
        flags = FLAGS[(tid // 7) % len(FLAGS)]
        sem, fold, opt = flags
        rec["flags"] = list(flags)
        comp = TorchCompiler(semiring=sem, fold=fold, optimize=opt)
        cc = comp.compile(c)
        try:
            zc = comp.compile(SF.integrate(c))
        except Exception:  # pylint: disable=broad-except
            zc = None      # no symbolic integration rule (binomial layers): use the query instead

        def z_is_one():
            with torch.no_grad():
                if zc is not None:
                    z = lin(zc(), sem).reshape(-1)
                else:
                    from cirkit.backend.torch.queries import IntegrateQuery
                    nv = max(c.scope) + 1
                    x0 = torch.zeros((1, nv), dtype=torch.long)
                    z = lin(IntegrateQuery(cc)(x0, integrate_vars=c.scope), sem).reshape(-1)
            return bool(torch.all(torch.abs(z - 1.0) <= 1e-9))

        def brute():
            if dom is None or int(np.prod(dom)) > 300:
                return True, True, True
            xs = torch.tensor(list(itertools.product(*[range(n) for n in dom])), dtype=torch.long)
            with torch.no_grad():
                raw = cc(xs)
                vals = lin(raw, sem)[:, 0, 0]
            nonneg = bool(torch.all(vals.real >= -1e-12) and torch.all(vals.imag.abs() <= 1e-9))
            total = bool(abs(vals.sum() - 1.0) <= 1e-9)
            finite = bool(torch.all(torch.isfinite(raw.real if raw.is_complex() else raw)))
            return total, nonneg, finite

        rec["z_ok"] = z_is_one()
        rec["brute_ok"], rec["nonneg_ok"], rec["finite_ok"] = brute()
        # training steps: any value of the unconstrained parameters must keep the circuit normalised
        params = [p for p in cc.parameters() if p.requires_grad]
        opt_ = torch.optim.SGD(params, lr=0.7)
        for _ in range(2):
            for p in params:
                p.grad = torch.randn_like(p)
            opt_.step()
        t, n, f = brute()
        rec["step_ok"] = z_is_one() and t and n and f
        cc.reset_parameters()
        t, n, f = brute()
        rec["reset_ok"] = z_is_one() and t and n and f
    except Exception as e:  # pylint: disable=broad-except
        rec["ok"] = False
        rec["why"] = repr(e)[:300] + " | " + traceback.format_exc()[-500:]
    return rec


def template_empty():
    from .template_props import EMPTY  # pylint: disable=import-outside-toplevel
    return EMPTY


def run(pid, tier, seed, rule, assumptions):
    # direction A: enumerated normalised circuits (TLC checks NormInv, behaviours are replayed)
    confs = sem_props.configurations(pid, tier, seed)
    rep_holder = {}

    def hook(rep):
        # direction B: the real templates
        n = 210 if tier == "quick" else 3500
        recs = runner.pmap(record, [(k + 1, seed) for k in range(n)], chunksize=2)
        rg_props.validate(rep, recs, pid, tier, "TraceTemplates.tla", "TraceTemplates.cfg")
        rep.extra["template_records"] = len(recs)
        rep_holder["done"] = True
    return sem_props.run(pid, tier, seed, rule, assumptions, confs=confs, post_hook=hook)


def replay_file(path, pid):
    with open(path) as f:
        obj = json.load(f)
    if obj.get("engine") == "trace":
        return rg_props.replay_file(path, pid)
    return sem_props.replay_file(path, pid)
