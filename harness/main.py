"""Command line of the checks (see /verif/check)."""
import argparse
import glob
import os
import subprocess
import sys
import traceback

VERIF = os.path.dirname(os.path.dirname(os.path.abspath(__file__)))

COMMON_ASSUMPTIONS = [
    "expected values come from the TLA+ reference semantics (specs/Sem.tla) evaluated by TLC; "
    "cirkit is driven through its public API on /repo's working tree in float64",
    "parameter values are finite generic valuations (integer / dyadic / complex-dyadic schemes), "
    "not all reals; bounds on layers, units, arity, variables are the configuration constants",
    "comparison tolerance 1e-9 relative (log semirings are mapped back with exp)",
]


def setup():
    rc = 0
    os.makedirs(os.path.join(VERIF, "work"), exist_ok=True)
    os.makedirs(os.path.join(VERIF, "evidence"), exist_ok=True)
    import cirkit  # pylint: disable=import-outside-toplevel
    repo = os.environ.get("VERIF_REPO", "/repo")
    if not os.path.abspath(cirkit.__file__).startswith(repo.rstrip("/") + "/"):
        print(f"cirkit is not imported from {repo}:", cirkit.__file__)
        rc = 2
    for f in sorted(glob.glob(os.path.join(VERIF, "specs", "*.tla"))):
        if os.path.basename(f).startswith("MC_"):
            continue
        p = subprocess.run(["tla-sany", os.path.basename(f)], cwd=os.path.join(VERIF, "specs"),
                           capture_output=True, text=True, check=False)
        ok = p.returncode == 0 and "rror" not in p.stdout.replace("Semantic errors: 0", "")
        print(("ok   " if ok else "FAIL ") + os.path.basename(f))
        if not ok:
            print(p.stdout[-1500:])
            rc = 2
    return rc


def main():
    ap = argparse.ArgumentParser()
    ap.add_argument("pid", nargs="?")
    ap.add_argument("--tier", default=os.environ.get("VERIF_TIER", "quick"))
    ap.add_argument("--replay")
    ap.add_argument("--setup", action="store_true")
    ap.add_argument("--selftest", action="store_true")
    a = ap.parse_args()
    seed = int(os.environ.get("VERIF_SEED", "0"))
    if a.setup:
        return setup()
    if a.selftest:
        from . import selftest  # pylint: disable=import-outside-toplevel
        return selftest.run()
    from . import registry  # pylint: disable=import-outside-toplevel
    if a.pid not in registry.PROPS:
        print(f"unknown property {a.pid}; known: {sorted(registry.PROPS)}")
        return 2
    prop = registry.PROPS[a.pid]
    try:
        if a.replay:
            from . import runner  # pylint: disable=import-outside-toplevel
            return prop["replay"](os.path.join(runner.OUT, a.replay) if not os.path.isabs(a.replay)
                                  else a.replay)
        return prop["run"](a.tier, seed)
    except Exception:  # pylint: disable=broad-except
        traceback.print_exc()
        return 2


if __name__ == "__main__":
    sys.exit(main())
