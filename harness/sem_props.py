"""The semantic properties decided by CircuitSys behaviours replayed into cirkit
(C01, C03, C04, C05, C06, C07): configurations and the check driver."""
import json

from . import configs, runner, semantic, tlcrun

BASE = dict(
    Dom=(2, 2), KSet={1, 2}, MaxL=4, MaxIn=2, InKindSeq=("emb",),
    InnerKinds={"sum", "had", "kron"}, MaxAr=2, MaxOuts=2, MaxOps=0, OpSet=set(), Scheme=1,
    OnlySD=False, PolyDeg=1, DiffK={1}, J=1, EmitOps={0}, EmitMod=1, EmitRes=0,
)


def cfg(**kw):
    d = dict(BASE)
    d.update(kw)
    return d


# name -> (constants, targets)
def configurations(pid, tier, seed):
    q = tier == "quick"
    if pid == "C01":
        cs = {
            "a_emb_free": cfg(InnerKinds={"sum", "had", "kron", "mix"},
                              EmitMod=2 if q else 1, EmitRes=seed),
            "b_discrete": cfg(Dom=(2, 3), InKindSeq=("emb", "catp", "catl"), KSet={1, 2},
                              EmitMod=6 if q else 1, EmitRes=seed),
            "c_poly_const": cfg(Dom=(3, 2), InKindSeq=("poly", "const", "clog"), Scheme=2,
                                PolyDeg=2, EmitMod=4 if q else 1, EmitRes=seed),
            "d_deep_sd": cfg(Dom=(2, 2, 2), KSet={2}, MaxL=5 if q else 6, MaxIn=3, MaxAr=3,
                             OnlySD=True, InnerKinds={"sum", "had", "kron", "mix"},
                             MaxOuts=1, EmitMod=1 if q else 7, EmitRes=seed),
        }
        return {k: (v, {"base"}) for k, v in cs.items()}
    raise KeyError(pid)


def zero_input_unit(beh):
    """Does some input-layer unit evaluate to exactly zero at some point of the domain?"""
    from . import nums  # pylint: disable=import-outside-toplevel
    for l, m in zip(beh["layers"], beh["store"]):
        if l["kind"] in ("emb", "catp", "catl", "const", "clog", "binom"):
            if any(int(e[0][0]) == 0 and int(e[1][0]) == 0 for row in m for e in row):
                return True
        elif l["kind"] == "poly":
            for row in m:
                for x in range(beh["dom"][l["var"] - 1]):
                    re = sum(nums.dy(c[0]) * x ** d for d, c in enumerate(row))
                    im = sum(nums.dy(c[1]) * x ** d for d, c in enumerate(row))
                    if re == 0 and im == 0:
                        return True
    return False


def signature(beh, f):
    used = {j for l in beh["layers"] for j in l["ins"]}
    flags = f.get("flags") or [None, None, None]
    return {
        "kind": f["kind"],
        "op": f.get("op"),
        "semiring": flags[0], "fold": flags[1], "optimize": flags[2],
        "batch": f.get("batch"), "B": f.get("B"),
        "layer_kinds": sorted({l["kind"] for l in beh["layers"]}),
        "ops": [t["op"] for t in beh["ops"]],
        "interior_output": any(o in used for o in beh["outs"]),
        "nouts": len(beh["outs"]),
        "nan": bool(f.get("nan")),
        "zero_input_unit": zero_input_unit(beh),
    }


def run(pid, tier, seed, rule, assumptions, workers=16):
    rep = runner.Report(pid, tier, seed)
    rep.assumptions = assumptions
    confs = configurations(pid, tier, seed)
    tags = set()
    refused = 0
    for name, (consts, targets) in confs.items():
        mod, cf = configs.write(f"{pid}_{tier}_{name}", "CircuitSys", consts,
                                invariants=["TypeOK", "EmitInv"])
        try:
            pay, stats = tlcrun.run_tlc(mod, cf, f"{pid}_{name}", workers=workers,
                                        timeout=1800 if tier == "quick" else 7200)
        except tlcrun.TLCError as e:
            rep.machinery_errors.append(str(e)[-1500:])
            continue
        rep.add_tlc(name, stats)
        behs = pay["VP"]
        if not behs:
            rep.machinery_errors.append(f"configuration {name} emitted no behaviour (vacuous)")
            continue
        results = runner.pmap(semantic.worker, [(b, tier, seed, targets) for b in behs])
        if len(rep.samples) < 4:
            b0 = behs[len(behs) // 2]
            rep.samples.append({"config": name, "layers": b0["layers"], "outs": b0["outs"],
                                "ops": b0["ops"], "expect_first_rows":
                                    [e["table"][:2] for e in b0["expect"]]})
        for b, r in zip(behs, results):
            rep.replayed += 1
            rep.evaluations += r["evals"]
            refused += r.get("refused", 0)
            tags.update(r.get("tags", []))
            unknown = []
            for f in r["failures"]:
                if f["kind"] == "harness_error":
                    rep.machinery_errors.append(f["detail"] + f.get("trace", ""))
                    continue
                sig = signature(b, f)
                if rep.known_only(sig):
                    continue
                unknown.append((sig, f))
            if unknown:
                sig, f = unknown[0]
                rep.failure(sig, {"hash": r["hash"], "engine": "semantic",
                                  "behaviour": b, "targets": sorted(targets) if targets else None,
                                  "failures": [u[1] for u in unknown], "rho": r.get("rho")},
                            f"{f['kind']} op={f.get('op')} flags={f.get('flags')} "
                            f"batch={f.get('batch')} layers={json.dumps(b['layers'])[:300]} "
                            f"outs={b['outs']} ops={json.dumps(b['ops'])[:200]} "
                            f"{f.get('detail', '')[:300]}")
    rep.extra["compiled_layer_tags"] = sorted(tags)
    rep.extra["operator_refusals"] = refused
    return rep.finish(rule, exhaustive=(tier == "thorough"))


def replay_file(path, pid):
    with open(path) as f:
        obj = json.load(f)
    r = semantic.replay(obj["behaviour"], "thorough", 0,
                        set(obj["targets"]) if obj.get("targets") else None)
    print(json.dumps(r["failures"], indent=1)[:4000])
    bad = [f for f in r["failures"]]
    if bad:
        print(f"VIOLATION property={pid} replay={path}")
        return 1
    print("replay: no failure reproduced")
    return 0
