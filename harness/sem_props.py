"""The semantic properties decided by CircuitSys behaviours replayed into cirkit
(C01-C07, C10, C11, C13, C19): configurations and the check driver."""
import json
import os

from . import configs, runner, semantic, tlcrun

BASE = dict(
    Dom=(2, 2), KSet={1, 2}, MaxK=8, MaxL=4, MaxIn=2, InKindSeq=("emb",),
    InnerKinds={"sum", "had", "kron"}, MaxAr=2, FreeOrder=False, MaxOuts=2, MaxBases=1, MaxOps=0, OpSet=set(),
    Scheme=1, OnlySD=False, PolyDeg=1, DiffK={1}, MaxDeg=2, EvExp=0, Invalid=False, MaxHist=0,
    RunActs={"update", "eval"}, NVer=2, GradMod=0, QueryOn=False, J=1,
    EmitOps={0}, EmitMod=1, EmitRes=0, EmitSmall=3, EmitFilter="all",
)


def cfg(**kw):
    d = dict(BASE)
    d.update(kw)
    return d


ALLINNER = {"sum", "had", "kron", "mix"}


# name -> (constants, replay options)
def configurations(pid, tier, seed):
    q = tier == "quick"
    r = seed

    def em(quick_mod, thorough_mod=1):
        return dict(EmitMod=quick_mod if q else thorough_mod, EmitRes=r)

    if pid == "C01":
        return {
            "a_emb_free": (cfg(InnerKinds=ALLINNER, FreeOrder=True, **em(16)), {}),
            "b_discrete": (cfg(Dom=(2, 3), InKindSeq=("emb", "catp", "catl"), **em(60)), {}),
            "c_poly_const": (cfg(Dom=(3, 2), InKindSeq=("poly", "const", "clog"), Scheme=2,
                                 PolyDeg=2, **em(30)), {}),
            "d_deep_sd": (cfg(Dom=(2, 2, 2), KSet={2}, MaxL=5 if q else 6, MaxIn=3, MaxAr=3,
                              OnlySD=True, InnerKinds=ALLINNER, MaxOuts=1, Scheme=6,
                              **em(6, 7)), {}),
            "e_complex": (cfg(Dom=(2, 2), KSet={1, 2}, InKindSeq=("emb", "poly"), Scheme=3,
                              InnerKinds=ALLINNER, **em(60, 2)), {}),
        }
    sd = dict(OnlySD=True, MaxOuts=1)
    if pid == "C03":
        return {
            "a_int1": (cfg(Dom=(2, 3), InKindSeq=("emb", "catp", "catl"), InnerKinds=ALLINNER,
                           MaxL=5, MaxOps=1, OpSet={"integrate"}, EmitOps={1}, **sd, **em(40)),
                       {"targets": {"integrate"}}),
            "b_chain": (cfg(Dom=(2, 2, 2), KSet={2}, MaxIn=3, MaxL=5, MaxAr=3,
                            InKindSeq=("emb", "catl"), MaxOps=2, OpSet={"integrate"},
                            EmitOps={2}, **sd, **em(20)), {"targets": {"integrate"}}),
            "d_int_of_pairs": (cfg(Dom=(2, 2), KSet={1, 2}, MaxL=4, MaxIn=2, MaxBases=2,
                                   InKindSeq=("emb", "catp"), InnerKinds={"sum"}, MaxOps=2,
                                   OpSet={"integrate", "multiply"}, EmitOps={2}, EmitSmall=0,
                                   **sd, **em(60, 4)), {"targets": {"integrate"}}),
            "c_of_products": (cfg(Dom=(2, 2), KSet={2}, MaxL=4, InKindSeq=("emb", "catp"),
                                  MaxOps=2, OpSet={"integrate", "multiply", "evidence"},
                                  EmitOps={2}, MaxOuts=2, OnlySD=True, EmitSmall=2, **em(100, 4)),
                              {"targets": {"integrate"}}),
        }
    if pid == "C04":
        return {
            "a_square": (cfg(Dom=(2, 2), KSet={1, 2}, MaxL=4, InKindSeq=("emb", "catp", "catl"),
                             InnerKinds=ALLINNER, MaxOps=1, OpSet={"multiply"}, EmitOps={1},
                             **sd, **em(4)), {"targets": {"multiply"}}),
            "b_pairs": (cfg(Dom=(2, 2), KSet={1, 2}, MaxL=6, MaxIn=4, MaxBases=2,
                            InKindSeq=("emb",), InnerKinds={"sum", "had", "kron"}, MaxOps=1,
                            OpSet={"multiply"}, EmitOps={1}, **sd, **em(160, 4)),
                        {"targets": {"multiply"}}),
            "c_chain": (cfg(Dom=(2, 2), KSet={2}, MaxL=4, InKindSeq=("emb", "poly"), Scheme=2, MaxDeg=3,
                            MaxOps=2, OpSet={"multiply", "evidence"}, EmitOps={2}, EmitSmall=2,
                            **sd, **em(6)), {"targets": {"multiply"}}),
            "d_arity3": (cfg(Dom=(2, 2, 2), KSet={2}, MaxL=5, MaxIn=3, MaxAr=3,
                             InKindSeq=("emb",), InnerKinds=ALLINNER, MaxOps=1,
                             OpSet={"multiply"}, EmitOps={1}, Scheme=6, **sd, **em(6)),
                         {"targets": {"multiply"}}),
        }
    if pid == "C05":
        return {
            "a_k1": (cfg(Dom=(3, 2), KSet={1, 2}, MaxL=5, InKindSeq=("poly",), Scheme=2,
                         PolyDeg=2, InnerKinds={"sum", "had", "kron"}, MaxOps=1,
                         OpSet={"differentiate"}, DiffK={1, 2}, J=3, EmitOps={1}, **sd, **em(8)),
                     {"targets": {"differentiate"}}),
            "b_3vars": (cfg(Dom=(2, 2, 2), KSet={1}, MaxL=5, MaxIn=3, MaxAr=3,
                            InKindSeq=("poly",), Scheme=2, PolyDeg=1,
                            InnerKinds={"sum", "had"}, MaxOps=1, OpSet={"differentiate"},
                            FreeOrder=True, DiffK={1}, J=2, EmitOps={1}, EmitSmall=4, **sd,
                            **em(11, 2)),
                        {"targets": {"differentiate"}}),
        }
    if pid == "C06":
        return {
            "a_evi": (cfg(Dom=(2, 3), KSet={1, 2}, MaxL=4, InKindSeq=("emb", "catp", "catl"),
                          InnerKinds=ALLINNER, MaxOps=1, OpSet={"evidence"}, EmitOps={1},
                          MaxOuts=2, OnlySD=True, EmitSmall=2, **em(100, 4)), {"targets": {"evidence"}}),
            "b_evi_poly": (cfg(Dom=(3, 2), KSet={1, 2}, MaxL=4, InKindSeq=("poly",), Scheme=2,
                               PolyDeg=2, EvExp=1, MaxOps=1, OpSet={"evidence"}, EmitOps={1},
                               MaxOuts=2, OnlySD=True, **em(12)), {"targets": {"evidence"}}),
            "c_evi_then": (cfg(Dom=(2, 2), KSet={2}, MaxL=4, InKindSeq=("emb", "catp"),
                               MaxOps=2, OpSet={"evidence", "integrate", "multiply"},
                               EmitOps={2}, EmitSmall=2, **sd, **em(12)),
                           {"targets": {"evidence", "integrate"}}),
            "d_concat": (cfg(Dom=(2, 2), KSet={1, 2}, MaxL=4, MaxBases=2, MaxIn=2,
                             InKindSeq=("emb", "catp"), MaxOps=2,
                             OpSet={"concat", "evidence"}, EmitOps={1, 2}, MaxOuts=2,
                             OnlySD=False, EmitSmall=0, **em(601, 41)), {"targets": {"concat"}}),
        }
    if pid == "C07":
        return {
            "a_conj_complex": (cfg(Dom=(2, 2), KSet={1, 2}, MaxL=4, InKindSeq=("emb", "poly"),
                                   Scheme=3, InnerKinds=ALLINNER, MaxOps=2, OpSet={"conjugate"},
                                   EmitOps={2}, MaxOuts=2, EmitSmall=2, **em(64, 4)),
                               {"targets": {"conjugate"}}),
            "b_conj_real_ops": (cfg(Dom=(2, 2), KSet={2}, MaxL=4,
                                    InKindSeq=("emb", "catp", "catl"), MaxOps=2,
                                    OpSet={"conjugate", "multiply", "integrate"}, EmitOps={2},
                                    EmitSmall=2, **sd, **em(12)), {"targets": {"conjugate", "integrate"}}),
            "c_conj_complex_ops": (cfg(Dom=(2, 2), KSet={2}, MaxL=4, InKindSeq=("emb",),
                                       Scheme=3, MaxOps=3,
                                       OpSet={"conjugate", "multiply", "integrate"},
                                       EmitOps={3}, EmitSmall=2, **sd, **em(70, 4)),
                                   {"targets": {"conjugate", "integrate"}}),
            # conjugation of operator results of every kind: also the outputs of differentiate
            "d_conj_of_diff": (cfg(Dom=(2, 2), KSet={1, 2}, MaxL=4, InKindSeq=("poly",), Scheme=3,
                                   PolyDeg=2, MaxOps=2, OpSet={"differentiate", "conjugate"},
                                   DiffK={1}, J=2, EmitOps={2}, EmitSmall=2, **sd, **em(12, 2)),
                               {"targets": {"conjugate"}}),
        }
    if pid == "C02":
        o = {"flagset": "fo4", "addressable": True}
        return {
            "a_free_upd": (cfg(InnerKinds=ALLINNER, FreeOrder=True, MaxHist=3, EmitSmall=0,
                               **em(150, 8)), o),
            "b_mixed_inputs": (cfg(Dom=(2, 3), InKindSeq=("emb", "catp", "catl"), MaxIn=3,
                                   MaxL=5, MaxOuts=2, EmitSmall=0, **em(307, 30)), o),
            "c_deep": (cfg(Dom=(2, 2, 2), KSet={2}, MaxL=5, MaxIn=3, MaxAr=3, OnlySD=True,
                           InnerKinds=ALLINNER, MaxOuts=1, Scheme=6, EmitSmall=0,
                           **em(61, 7)), o),
            "d_pipeline_upd": (cfg(Dom=(2, 2), KSet={1, 2}, MaxL=4, InKindSeq=("emb", "catp"),
                                   MaxOps=2, OpSet={"multiply", "integrate", "evidence"},
                                   EmitOps={2}, MaxHist=3, EmitSmall=0, **sd, **em(1000, 40)),
                               o),
            "e_poly_diff": (cfg(Dom=(2, 2), KSet={1, 2}, MaxL=4, InKindSeq=("poly",), Scheme=2,
                                PolyDeg=2, MaxOps=2, OpSet={"differentiate", "multiply"},
                                DiffK={1, 2}, J=3, EmitOps={1, 2}, EmitSmall=0, **sd,
                                **em(60, 4)), o),
        }
    if pid == "C10":
        acts = {"update", "reset", "load", "save", "eval"}
        return {
            "a_one_op": (cfg(Dom=(2, 2), KSet={2}, MaxL=3, InKindSeq=("emb", "catp", "catl"),
                             InnerKinds=ALLINNER, MaxOps=1,
                             OpSet={"integrate", "multiply", "evidence", "conjugate"},
                             EmitOps={1}, MaxHist=4, RunActs=acts, NVer=2, EmitSmall=0,
                             **sd, **em(100, 5)), {"nflags": 3}),
            "b_chains": (cfg(Dom=(2, 2), KSet={2}, MaxL=2, InKindSeq=("emb", "catp"),
                             MaxOps=2, OpSet={"integrate", "multiply", "evidence", "concat"},
                             EmitOps={2}, MaxHist=4, RunActs=acts, NVer=2, EmitSmall=0,
                             **sd, **em(50, 3)), {"nflags": 3}),
            "c_poly": (cfg(Dom=(2, 2), KSet={2}, MaxL=3, InKindSeq=("poly",), Scheme=2,
                           PolyDeg=2, MaxOps=2, OpSet={"differentiate", "multiply", "evidence"},
                           DiffK={1}, J=2, EmitOps={2}, MaxHist=4,
                           RunActs={"update", "reset", "eval"}, NVer=2, EmitSmall=0, **sd,
                           **em(60, 3)), {"nflags": 3}),
            "d_long_hist": (cfg(Dom=(2, 2), KSet={2}, MaxL=3, InKindSeq=("emb",), MaxOps=1,
                                OpSet={"integrate", "multiply"}, EmitOps={1}, MaxHist=6,
                                RunActs=acts, NVer=2, EmitSmall=0, **sd, **em(150, 8)),
                            {"nflags": 3}),
        }
    if pid == "C19":
        acts = {"update", "reset", "save", "reload", "eval"}
        return {
            "a_base": (cfg(Dom=(2, 2), KSet={1, 2}, MaxL=3, InKindSeq=("emb", "catp", "catl"),
                           InnerKinds=ALLINNER, MaxOuts=2, MaxHist=4, RunActs=acts, NVer=2,
                           EmitSmall=0, **em(300, 15)), {"nflags": 3, "freeze": True}),
            "b_pipeline": (cfg(Dom=(2, 2), KSet={2}, MaxL=3, InKindSeq=("emb", "catp"),
                               MaxOps=2, OpSet={"integrate", "multiply", "evidence"},
                               EmitOps={1, 2}, MaxHist=4, RunActs=acts, NVer=2, EmitSmall=0,
                               **sd, **em(700, 30)), {"nflags": 3, "freeze": True}),
            "c_long": (cfg(Dom=(2, 2), KSet={2}, MaxL=3, InKindSeq=("emb", "poly"), Scheme=2,
                           MaxOps=1, OpSet={"multiply"}, EmitOps={0, 1}, MaxHist=6,
                           RunActs=acts, NVer=2, EmitSmall=0, **sd, **em(400, 20)),
                       {"nflags": 3}),
        }
    if pid == "C13":
        o = {"grads": True, "rows": False, "flagset": "fo4", "freeze": True, "addressable": True}
        return {
            "a_free": (cfg(InnerKinds=ALLINNER, J=2, GradMod=3, EmitSmall=3, **em(40, 4)), o),
            "b_inputs": (cfg(Dom=(2, 3), InKindSeq=("emb", "catp", "catl", "const", "clog"),
                             MaxIn=3, J=2, GradMod=3, EmitSmall=2, **em(400, 20)), o),
            "c_poly": (cfg(Dom=(3, 2), InKindSeq=("poly",), Scheme=2, PolyDeg=2, J=2, GradMod=3,
                           EmitSmall=3, **em(30, 3)), o),
            "d_zeros": (cfg(InnerKinds={"sum", "had", "mix"}, Scheme=2, J=2, GradMod=2,
                            EmitSmall=3, **em(30, 3)), o),
            "f_zeros_nonneg": (cfg(InnerKinds={"sum", "had", "mix"}, Scheme=7, J=2, GradMod=2,
                                   EmitSmall=3, **em(30, 3)), o),
            "e_one_op": (cfg(Dom=(2, 2), KSet={1, 2}, MaxL=4, InKindSeq=("emb", "catp"),
                             MaxOps=1, OpSet={"integrate", "multiply", "evidence"}, EmitOps={1},
                             J=2, GradMod=3, EmitSmall=2, **sd, **em(60, 6)), o),
        }
    if pid == "C11":
        o = {"query": True, "rows": False, "flagset": "fo4"}
        return {
            "a_cat2": (cfg(Dom=(2, 3), KSet={1, 2}, MaxL=5, InKindSeq=("catp", "catl"),
                           InnerKinds=ALLINNER, QueryOn=True, EmitSmall=3, MaxOuts=2,
                           OnlySD=True, **em(60, 4)), o),
            "b_cat3": (cfg(Dom=(2, 2, 2), KSet={2}, MaxL=5, MaxIn=3, MaxAr=3,
                           InKindSeq=("catp", "catl"), InnerKinds=ALLINNER, QueryOn=True,
                           Scheme=6, EmitSmall=3, **sd, **em(40, 4)), o),
            "d_onehot": (cfg(Dom=(2, 3), KSet={1, 2}, MaxL=4, InKindSeq=("catp",),
                             InnerKinds={"sum", "had", "mix"}, QueryOn=True, Scheme=5,
                             EmitSmall=3, **sd, **em(8, 2)), o),
            "c_norm": (cfg(Dom=(2, 3), KSet={2}, MaxL=5, InKindSeq=("catp", "catl"),
                           InnerKinds={"sum", "had", "mix"}, QueryOn=True, Scheme=4,
                           EmitSmall=3, **sd, **em(12, 2)), o),
        }
    if pid == "C12":
        o = {"rows": False, "flagset": "fo4", "invariants": ["NormInv"], "normalised": True}
        norm = dict(OnlySD=True, KSet={1, 2})
        return {
            "a_norm2": (cfg(Dom=(2, 3), InKindSeq=("catp", "catl"), InnerKinds=ALLINNER, MaxL=5,
                            Scheme=4, EmitSmall=3, MaxOuts=2, **norm, **em(300, 10)), o),
            "b_norm3": (cfg(Dom=(2, 2, 2), InKindSeq=("catp",), InnerKinds=ALLINNER, MaxL=5,
                            MaxIn=3, MaxAr=3, Scheme=4, EmitSmall=0, MaxOuts=1, **norm,
                            **em(40, 4)), o),
            "c_integrate": (cfg(Dom=(2, 3), InKindSeq=("catp", "catl"), InnerKinds=ALLINNER,
                                MaxL=4, Scheme=4, MaxOps=1, OpSet={"integrate"}, EmitOps={1},
                                EmitSmall=2, MaxOuts=1, **norm, **em(40, 4)), o),
        }
    if pid == "C15":
        o = {"sample": True, "rows": False, "flagset": "fo4"}
        norm = dict(OnlySD=True, MaxOuts=1, KSet={1, 2})
        return {
            "a_norm2": (cfg(Dom=(2, 3), InKindSeq=("catp",), InnerKinds=ALLINNER, MaxL=5,
                            Scheme=4, EmitSmall=3, **norm, **em(12, 2)), o),
            "b_onehot": (cfg(Dom=(2, 3), InKindSeq=("catp",), InnerKinds=ALLINNER, MaxL=5,
                             Scheme=5, EmitSmall=3, **norm, **em(12, 2)), o),
            "c_norm3": (cfg(Dom=(2, 2, 2), InKindSeq=("catp",), InnerKinds=ALLINNER, MaxL=5,
                            MaxIn=3, MaxAr=3, Scheme=4, EmitSmall=0, OnlySD=True, MaxOuts=1,
                            KSet={2, 1}, **em(80, 4)), o),
            "d_one_var": (cfg(Dom=(3,), InKindSeq=("catp",), InnerKinds={"sum", "mix"}, MaxL=5,
                              MaxIn=3, MaxAr=3, Scheme=4, FreeOrder=True, EmitSmall=3,
                              OnlySD=True, MaxOuts=1, KSet={1, 2}, **em(8, 2)), o),
            "e_arity3": (cfg(Dom=(2, 2, 2), InKindSeq=("catp",), InnerKinds={"had", "sum"},
                             MaxL=5, MaxIn=3, MaxAr=3, Scheme=4, EmitSmall=0, OnlySD=True,
                             MaxOuts=1, KSet={2, 1}, MaxK=2, EmitFilter="ar3", **em(1, 1)), o),
        }
    raise KeyError(pid)


def zero_input_unit(beh):
    """Does some input-layer unit evaluate to exactly zero at some point of the domain?"""
    from . import nums  # pylint: disable=import-outside-toplevel
    for st in beh.get("stores", []):
        for l, m in zip(beh["layers"], st):
            if l["kind"] in ("emb", "catp", "catl", "const", "clog", "binom"):
                if any(int(e[0][0]) == 0 and int(e[1][0]) == 0 for row in m for e in row):
                    return True
            elif l["kind"] == "poly":
                for row in m:
                    for x in range(beh["dom"][l["var"] - 1]):
                        re = sum(nums.dy(c[0]) * x ** d for d, c in enumerate(row))
                        im = sum(nums.dy(c[1]) * x ** d for d, c in enumerate(row))
                        if re == 0 and im == 0:
                            return True
    return False


def _scopes(beh, observed=()):
    L = beh["layers"]
    sc = []
    for l in L:
        if l["ins"]:
            sc.append(frozenset().union(*[sc[j - 1] for j in l["ins"]]))
        else:
            sc.append(frozenset([l["var"]]) - frozenset(observed) - {0})
    return sc


def prod_order_sensitive(beh):
    """multiply pairs the inputs of two product layers positionally, after a sort by scope that
    only moves empty-scope inputs to the front: is there a Kronecker layer (more than one unit)
    with an empty-scope (constant / observed) input listed after a non-empty one, or do two base
    circuits list the inputs of product layers over the same scope in different orders?"""
    L = beh["layers"]
    observed = {v for t in beh["ops"] if t["op"] == "evidence" for v in t["vars"]}
    sc = _scopes(beh, observed)
    for l in L:
        if l["kind"] == "kron" and L[l["ins"][0] - 1]["K"] > 1:
            ins = [sc[j - 1] for j in l["ins"]]
            seen_nonempty = False
            for s_ in ins:
                if s_:
                    seen_nonempty = True
                elif seen_nonempty:
                    return True
    if len(beh["bases"]) == 2:
        prods = [(i, [sc[j - 1] for j in l["ins"]]) for i, l in enumerate(L)
                 if l["kind"] in ("had", "kron")]
        for i, a in prods:
            for j, b in prods:
                if i < j and sc[i] == sc[j] and set(a) == set(b) and a != b:
                    return True
    return False


def sem_ops(beh):
    return ["base"] * len(beh["bases"]) + [t["op"] for t in beh["ops"]]


def operands_closure(beh, i):
    """pool indices (0-based) of the circuits entry i was derived from (excluding i)"""
    nb = len(beh["bases"])
    out, stack = set(), [i]
    while stack:
        j = stack.pop()
        if j < nb:
            continue
        t = beh["ops"][j - nb]
        args = [t["a"], t["b"]] if t["op"] == "multiply" else \
            (list(t["args"]) if t["op"] == "concat" else [t["a"]])
        for a in args:
            if a - 1 not in out:
                out.add(a - 1)
                stack.append(a - 1)
    return out


def signature(beh, f):
    used = {j for l in beh["layers"] for j in l["ins"]}
    flags = f.get("flags") or [None, None, None]
    L = beh["layers"]
    return {
        "kind": f["kind"],
        "op": f.get("op"),
        "semiring": flags[0], "fold": flags[1], "optimize": flags[2],
        "batch": f.get("batch"), "B": f.get("B"),
        "layer_kinds": sorted({l["kind"] for l in L}),
        "ops": [t["op"] for t in beh["ops"]],
        "interior_output": any(o in used for outs in beh["bases"] for o in outs),
        "nouts": len(beh["bases"][0]),
        "nan": bool(f.get("nan")),
        "zero_input_unit": zero_input_unit(beh),
        "max_sum_arity": max([len(l["ins"]) for l in L if l["kind"] in ("sum", "mix")] + [0]),
        "max_units": max(l["K"] for l in L),
        "action": f.get("action"),
        "prod_order_sensitive": prod_order_sensitive(beh),
        "fmt": f.get("fmt"),
        "compiled_layer_types": f.get("layer_types"),
        "dtype_mix_error": "expected scalar type" in (f.get("detail") or ""),
    }


def run(pid, tier, seed, rule, assumptions, workers=16, confs=None, extra_sig=None, post_hook=None):
    rep = runner.Report(pid, tier, seed)
    rep.assumptions = assumptions
    if confs is None:
        confs = configurations(pid, tier, seed)
    tags = set()
    refused = 0
    inherited = 0
    inits = {}
    for name, (consts, opts) in confs.items():
        inv = opts.get("emit", "EmitInv")
        mod, cf = configs.write(f"{pid}_{tier}_{name}", "CircuitSys", consts,
                                invariants=["TypeOK", inv] + list(opts.get("invariants", [])))
        try:
            pay, stats = tlcrun.run_tlc(mod, cf, f"{pid}_{name}", workers=workers,
                                        timeout=2400 if tier == "quick" else 14400,
                                        coverage=(tier == "thorough"))
        except tlcrun.TLCError as e:
            rep.machinery_errors.append(str(e)[-1500:])
            continue
        rep.add_tlc(name, stats)
        behs = pay["VP"]
        if not behs:
            rep.machinery_errors.append(f"configuration {name} emitted no behaviour (vacuous)")
            continue
        rep.tlc_runs[-1]["behaviours_emitted"] = len(behs)
        if os.environ.get("VERIF_KEEP"):
            with open(os.path.join(runner.VERIF, "work", f"behs_{pid}_{name}.json"), "w") as fo:
                json.dump(behs, fo)
        fn = opts.get("worker", semantic.worker)
        results = runner.pmap(fn, [(b, tier, seed, opts) for b in behs])
        if len(rep.samples) < 4:
            b0 = behs[len(behs) // 2]
            rep.samples.append({"config": name, "layers": b0["layers"], "bases": b0["bases"],
                                "ops": b0["ops"],
                                "hist": [{k: v for k, v in s.items() if k != "expect"}
                                         for s in (b0.get("hist") or [])],
                                "expect_first_rows":
                                    [e["table"][:2] for e in b0.get("expect", []) if "table" in e]})
        for b, r in zip(behs, results):
            rep.replayed += 1
            rep.evaluations += r["evals"]
            refused += r.get("refused", 0)
            tags.update(r.get("tags", []))
            inits[r.get("init")] = inits.get(r.get("init"), 0) + 1
            unknown = []
            targets = opts.get("targets")
            failed_at = {}
            for f in r["failures"]:
                if f.get("pool") is not None:
                    failed_at.setdefault(tuple(f.get("flags") or ()), set()).add(f["pool"])
            for f in r["failures"]:
                if f["kind"] == "harness_error":
                    rep.machinery_errors.append(f["detail"] + f.get("trace", ""))
                    continue
                if f.get("pool") is not None and "ops" in b and "struct" not in b:
                    # attribution: a failure of an operator result belongs to this property only
                    # if that operator is one of the property's targets and none of the circuits
                    # it was derived from already fails (under the same flags, or at build time)
                    if targets is not None and sem_ops(b)[f["pool"]] not in targets:
                        inherited += 1
                        continue
                    bad = failed_at.get(tuple(f.get("flags") or ()), set()) | failed_at.get((), set())
                    if operands_closure(b, f["pool"]) & bad:
                        inherited += 1
                        continue
                sig = signature(b, f)
                if extra_sig:
                    sig.update(extra_sig(b, f))
                if rep.known_only(sig):
                    continue
                unknown.append((sig, f))
            if unknown:
                sig, f = unknown[0]
                rep.failure(sig, {"hash": r["hash"], "engine": "semantic", "config": name,
                                  "behaviour": b, "opts": {k: (sorted(v) if isinstance(v, set) else v)
                                                           for k, v in opts.items()
                                                           if k not in ("worker",)},
                                  "failures": [u[1] for u in unknown], "rho": r.get("rho")},
                            f"{f['kind']} op={f.get('op')} flags={f.get('flags')} "
                            f"batch={f.get('batch')} layers={json.dumps(b['layers'])[:300]} "
                            f"bases={b['bases']} ops={json.dumps(b['ops'])[:200]} "
                            f"{f.get('detail', '')[:300]}")
    if post_hook is not None:
        post_hook(rep)
    rep.extra["compiled_layer_tags"] = sorted(tags)
    rep.extra["operator_refusals"] = refused
    rep.extra["failures_attributed_to_operands_or_other_properties"] = inherited
    rep.extra["initialiser_modes"] = {str(k): v for k, v in inits.items()}
    return rep.finish(rule, exhaustive=(tier == "thorough"))


def replay_file(path, pid):
    with open(path) as f:
        obj = json.load(f)
    if obj.get("engine") == "mech-trace":
        from . import mech_trace  # pylint: disable=import-outside-toplevel
        return mech_trace.replay_file(path, pid)
    if obj.get("engine") == "trace":
        from . import rg_props  # pylint: disable=import-outside-toplevel
        return rg_props.replay_file(path, pid)
    opts = dict(obj.get("opts") or {})
    if opts.get("targets"):
        opts["targets"] = set(opts["targets"])
    r = semantic.replay(obj["behaviour"], "thorough", 0, opts)
    print(json.dumps(r["failures"], indent=1)[:4000])
    if r["failures"]:
        print(f"VIOLATION property={pid} replay={path}")
        return 1
    print("replay: no failure reproduced")
    return 0
