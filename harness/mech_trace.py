"""Direction B for the mechanism models (FoldSys.tla, OptSys.tla): executions of cirkit's folding
and layer-fusion passes, observed through the CIRKIT_VERIF hook of cirkit.backend.torch.compiler
(`_VERIF_TRACER`), projected to ndjson records and validated by specs/TraceFold.tla and
specs/TraceOpt.tla.

The tracer is installed in every process that sets VERIF_MECH_TRACE=<path prefix> (the replay
workers of the C02 check, the pytest processes running the repository's own tests in the thorough
tier); each process appends to <prefix>.<pid>.ndjson.  Records are de-duplicated by content.
"""
import glob
import hashlib
import json
import os

MAX_FOLD_NODES = 130
MAX_OPT_NODES = 100

_SEEN = set()
_TYPES = {"TorchSumLayer": "sum", "TorchHadamardLayer": "had", "TorchKroneckerLayer": "kron",
          "TorchTuckerLayer": "tucker", "TorchCPTLayer": "cpt", "TorchTensorDotLayer": "tdot"}


def _settings(module):
    """everything modules must agree on to be folded (public attributes only): the type, the
    declared fold settings, and the same for the sub-modules"""
    ss = [type(module), *module.fold_settings]
    for _, sub in module.sub_modules.items():
        ss.extend(_settings(sub))
    return tuple(ss)


def project_fold(unfolded, groups, folded):
    import torch  # pylint: disable=import-outside-toplevel
    frontiers = [list(fr) for fr in unfolded.layerwise_topological_ordering()]
    flat = [m for fr in frontiers for m in fr]
    if len(flat) > MAX_FOLD_NODES:
        return None
    idx = {m: i + 1 for i, m in enumerate(flat)}
    # folding a group of layers with sub-modules (evidence layers) folds the wrapped layers through
    # the same function: those nested groups are not layers of the circuit
    groups = [g for g in groups if all(m in idx for m in g)]
    keys = []                      # key ids by equality of the settings tuples

    def key_of(m):
        s = _settings(m)
        for k, t in enumerate(keys):
            if t == s:
                return k + 1
        keys.append(s)
        return len(keys)

    nodes = [{"key": key_of(m), "ins": [idx[i] for i in unfolded.layer_inputs(m)]} for m in flat]
    lev = [k + 1 for k, fr in enumerate(frontiers) for _ in fr]
    layers = list(folded.layers)
    lpos = {m: i + 1 for i, m in enumerate(layers)}
    book, out = [], None
    for entry in folded.address_book:
        ids = [[int(i) + 1 for i in h] for h in entry.in_module_ids]
        fi = entry.in_fold_idx
        if entry.module is None:
            out = {"ids": ids[0], "idx": [int(v) for v in fi[0].reshape(-1).tolist()]}
            continue
        if not ids:
            book.append({"kind": "input", "ids": [], "idx": [], "pos": lpos[entry.module]})
            continue
        f0 = fi[0]
        if isinstance(f0, torch.Tensor):
            kind, ix = "none", [[int(v) for v in row] for row in f0.tolist()]
        elif f0 == (None,):
            kind, ix = "dim0", []
        elif f0 == (slice(None), None):
            kind, ix = "dim1", []
        else:
            kind, ix = "unknown:" + repr(f0), []
        book.append({"kind": kind, "ids": ids[0], "idx": ix, "pos": lpos[entry.module]})
    rec = {"ev": "fold", "nodes": nodes, "lev": lev, "outs": [idx[m] for m in unfolded.outputs],
           "groups": [[idx[m] for m in g] for g in groups],
           "book": [{k: b[k] for k in ("kind", "ids", "idx")} for b in book],
           "bookpos": [b["pos"] for b in book],
           "out": out, "folds": [int(m.num_folds) for m in layers]}
    return rec


def project_opt(shatter, unoptimized, matches, optimized):
    if shatter:
        return None
    layers = list(unoptimized.layers)
    if len(layers) > MAX_OPT_NODES:
        return None
    from cirkit.backend.torch.layers import TorchInputLayer  # pylint: disable=import-outside-toplevel

    def ty(m):
        if isinstance(m, TorchInputLayer):
            return "in"
        return _TYPES.get(type(m).__name__, type(m).__name__)
    idx = {m: i + 1 for i, m in enumerate(layers)}
    origin = {}
    for match, opt_layers in matches:
        for om in opt_layers:
            origin[om] = [idx[e] for e in match.entries]
    after = list(optimized.layers)
    apos = {m: i + 1 for i, m in enumerate(after)}
    rec = {"ev": "opt",
           "nodes": [{"ty": ty(m), "ins": [idx[i] for i in unoptimized.layer_inputs(m)]} for m in layers],
           "outs": [idx[m] for m in unoptimized.outputs],
           "order": [idx[m] for m in unoptimized.topological_ordering()],
           "after": [{"ty": ty(m), "orig": origin.get(m) or [idx[m]],
                      "ins": [apos[i] for i in optimized.layer_inputs(m)]} for m in after],
           "after_outs": [apos[m] for m in optimized.outputs]}
    return rec


def _tracer(event, **kw):
    prefix = os.environ.get("VERIF_MECH_TRACE")
    if not prefix:
        return
    try:
        if event == "fold_circuit":
            rec = project_fold(kw["unfolded"], kw["groups"], kw["folded"])
        elif event == "optimize_layers":
            rec = project_opt(kw["shatter"], kw["unoptimized"], kw["matches"], kw["optimized"])
        else:
            rec = None
    except Exception as e:  # pylint: disable=broad-except
        import traceback  # pylint: disable=import-outside-toplevel
        rec = {"ev": "projection_error", "event": event, "why": repr(e)[:300] + traceback.format_exc()[-600:]}
    if rec is None:
        return
    text = json.dumps(rec, sort_keys=True)
    h = hashlib.sha1(text.encode()).hexdigest()
    if h in _SEEN:
        return
    _SEEN.add(h)
    with open(f"{prefix}.{os.getpid()}.ndjson", "a") as f:
        f.write(text + "\n")


def install():
    """install the tracer in this process (no effect unless VERIF_MECH_TRACE and CIRKIT_VERIF=1)"""
    if not os.environ.get("VERIF_MECH_TRACE"):
        return False
    import cirkit.backend.torch.compiler as C  # pylint: disable=import-outside-toplevel
    if not hasattr(C, "_VERIF_TRACER"):
        return False
    C._VERIF_TRACER = _tracer  # pylint: disable=protected-access
    return True


def collect(prefix, limit=None):
    """read, de-duplicate and remove the per-process files; returns (fold records, opt records, errors)"""
    seen, fold, opt, errs = set(), [], [], []
    for path in sorted(glob.glob(prefix + ".*.ndjson")):
        with open(path) as f:
            for line in f:
                h = hashlib.sha1(line.encode()).hexdigest()
                if h in seen:
                    continue
                seen.add(h)
                r = json.loads(line)
                (fold if r["ev"] == "fold" else opt if r["ev"] == "opt" else errs).append(r)
        os.remove(path)
    if limit:
        fold, opt = fold[:limit], opt[:limit]
    for k, r in enumerate(fold + opt, start=1):
        r["tid"] = k
    return fold, opt, errs


def validate(rep, prefix, tag, limit=None):
    """validate the collected records against TraceFold.tla / TraceOpt.tla; a rejected record is a
    violation of C02 (the folded / fused circuit is not the one the mechanism model builds)"""
    fold, opt, errs = collect(prefix, limit)
    for e in errs[:3]:
        rep.machinery_errors.append("mechanism trace projection failed: " + e.get("why", "")[:600])
    return validate_records(rep, fold, opt, tag)


def validate_records(rep, fold, opt, tag):
    from . import tlcrun  # pylint: disable=import-outside-toplevel
    summary = {"fold_records": len(fold), "opt_records": len(opt)}
    for name, recs, module, cfg in (("fold", fold, "TraceFold.tla", "TraceFold.cfg"),
                                    ("opt", opt, "TraceOpt.tla", "TraceOpt.cfg")):
        if not recs:
            continue
        os.makedirs(tlcrun.WORK, exist_ok=True)
        path = os.path.join(tlcrun.WORK, f"mech_{tag}_{name}_{os.getpid()}.ndjson")
        with open(path, "w") as f:
            for r in recs:
                f.write(json.dumps(r) + "\n")
        try:
            pay, stats = tlcrun.run_tlc(module, cfg, f"mech_{tag}_{name}", workers=1, timeout=3000,
                                        coverage=False,
                                        env_extra={"TRACE_FILE": path, "JAVA_TOOL_OPTIONS": "-Xss64m"})
        except tlcrun.TLCError as e:
            rep.machinery_errors.append(str(e)[-1500:])
            continue
        finally:
            if os.path.exists(path):
                os.remove(path)
        rep.add_tlc(f"trace_validation_{name}", stats)
        acc = {int(x["tid"]) for x in pay["ACCEPT"]}
        rej = {int(x["tid"]): x for x in pay["REJECT"]}
        if len(acc) + len(rej) != len(recs):
            rep.machinery_errors.append(f"{module}: verdicts {len(acc)}+{len(rej)} != {len(recs)} records; "
                                        + stats.get("tail", "")[-600:])
        rep.replayed += len(acc) + len(rej)
        summary[f"{name}_accepted"] = len(acc)
        by = {r["tid"]: r for r in recs}
        for tid, x in sorted(rej.items()):
            r = by[tid]
            sig = {"kind": "mechanism_trace_rejected", "model": module, "clause": int(x["clause"])}
            rep.failure(sig, {"hash": f"mech_{name}_{tid}_{rep.seed}", "engine": "mech-trace", "model": module,
                              "cfg": cfg, "record": r, "rejected": x},
                        f"{module} rejects an observed {name} pass by clause {x['clause']}: "
                        f"{json.dumps(r)[:300]}")
    rep.extra["mechanism_traces"] = summary
    return summary


def replay_file(path, pid):
    """re-validate the stored record"""
    from . import runner, tlcrun  # pylint: disable=import-outside-toplevel
    with open(path) as f:
        obj = json.load(f)
    os.makedirs(tlcrun.WORK, exist_ok=True)
    p = os.path.join(tlcrun.WORK, f"mech_replay_{os.getpid()}.ndjson")
    with open(p, "w") as f:
        f.write(json.dumps(obj["record"]) + "\n")
    try:
        pay, _ = tlcrun.run_tlc(obj["model"], obj["cfg"], "mech_replay", workers=1, coverage=False,
                                env_extra={"TRACE_FILE": p, "JAVA_TOOL_OPTIONS": "-Xss64m"})
    finally:
        os.remove(p)
    if pay["REJECT"]:
        print("rejected:", pay["REJECT"][0])
        print(f"VIOLATION property={pid} replay={path}")
        return 1
    print("replay: the stored record is accepted (it is the observation, not the code, that is stored)")
    return 0
