"""JSON behaviour (emitted by TLC from specs/CircuitSys.tla) <-> cirkit objects.

Only cirkit's public API is used, plus `TorchCompiler.state.retrieve_compiled_parameter`
(public attribute) to write parameter values through the registry slice.
"""
import itertools
import math

import numpy as np
import torch

from cirkit.symbolic.circuit import Circuit
from cirkit.symbolic.dtypes import DataType
from cirkit.symbolic.initializers import NormalInitializer
from cirkit.symbolic.layers import (
    CategoricalLayer,
    ConstantValueLayer,
    EmbeddingLayer,
    HadamardLayer,
    KroneckerLayer,
    PolynomialLayer,
    SumLayer,
)
from cirkit.symbolic.parameters import MixingWeightParameter, Parameter, TensorParameter
from cirkit.utils.scope import Scope
import cirkit.symbolic.functional as SF

from . import nums

torch.set_default_dtype(torch.float64)
torch.set_num_threads(1)

RHOS = [(0, 1, 2, 3), (1, 3, 8, 11), (2, 9, 16, 17)]
SEMIRINGS = ["sum-product", "lse-sum", "complex-lse-sum"]
ALL_FLAGS = [(s, f, o) for s in SEMIRINGS for f in (False, True) for o in (False, True)]

LOG_KINDS = {"catl", "clog"}          # leaves stored in log space (chart = log)
INPUT_KINDS = {"emb", "catp", "catl", "poly", "const", "clog", "binom"}


class Refused(Exception):
    """An operator refused (raised) at application time."""

    def __init__(self, exc):
        super().__init__(repr(exc))
        self.exc = exc


class Leaf:
    def __init__(self, tensor, kind, matrix, shape):
        self.tensor = tensor          # symbolic TensorParameter
        self.kind = kind              # layer kind (decides the chart)
        self.matrix = matrix          # complex dyadic matrix (linear domain), as emitted by TLC
        self.shape = shape

    def value(self, dtype):
        m = np.array(nums.matrix_complex(self.matrix), dtype=np.complex128).reshape(self.shape)
        if self.kind in LOG_KINDS:
            with np.errstate(divide="ignore"):
                m = np.log(m.real).astype(np.complex128)
        t = torch.from_numpy(m)
        if not dtype.is_complex:
            t = t.real.to(dtype)
        return t.to(dtype)


def _tp(shape, cplx):
    return TensorParameter(
        *shape, initializer=NormalInitializer(), dtype=DataType.COMPLEX if cplx else DataType.REAL
    )


class Built:
    """The base circuit of a behaviour, built through the public constructors."""

    def __init__(self, beh, rho):
        self.beh = beh
        self.rho = rho
        self.dom = beh["dom"]
        self.V = len(self.dom)
        self.ids = [rho[v] for v in range(self.V)]
        self.width = max(self.ids) + 1
        self.layers = []
        self.leaves = {}
        in_layers = {}
        store = beh["store"]
        for i, l in enumerate(beh["layers"]):
            kind = l["kind"]
            K = l["K"]
            mat = store[i]
            cplx = bool(mat) and not nums.matrix_is_real(mat)
            if kind in ("const", "clog"):
                sc = Scope([])
            elif kind in INPUT_KINDS:
                sc = Scope([self.ids[l["var"] - 1]])
            if kind == "emb":
                N = self.dom[l["var"] - 1]
                tp = _tp((K, N), cplx)
                sl = EmbeddingLayer(sc, K, num_states=N, weight=Parameter.from_input(tp))
                self.leaves[i] = Leaf(tp, kind, mat, (K, N))
            elif kind == "catp":
                N = self.dom[l["var"] - 1]
                tp = _tp((K, N), False)
                sl = CategoricalLayer(sc, K, num_categories=N, probs=Parameter.from_input(tp))
                self.leaves[i] = Leaf(tp, kind, mat, (K, N))
            elif kind == "catl":
                N = self.dom[l["var"] - 1]
                tp = _tp((K, N), False)
                sl = CategoricalLayer(sc, K, num_categories=N, logits=Parameter.from_input(tp))
                self.leaves[i] = Leaf(tp, kind, mat, (K, N))
            elif kind == "poly":
                deg = beh["polydeg"]
                tp = _tp((K, deg + 1), cplx)
                sl = PolynomialLayer(sc, K, degree=deg, coeff=Parameter.from_input(tp))
                self.leaves[i] = Leaf(tp, kind, mat, (K, deg + 1))
            elif kind in ("const", "clog"):
                tp = _tp((K,), cplx)
                sl = ConstantValueLayer(
                    K, log_space=(kind == "clog"), value=Parameter.from_input(tp)
                )
                self.leaves[i] = Leaf(tp, kind, mat, (K,))
            elif kind == "sum":
                H = len(l["ins"])
                kin = beh["layers"][l["ins"][0] - 1]["K"]
                tp = _tp((K, H * kin), cplx)
                sl = SumLayer(kin, K, arity=H, weight=Parameter.from_input(tp))
                self.leaves[i] = Leaf(tp, kind, mat, (K, H * kin))
            elif kind == "mix":
                H = len(l["ins"])
                tp = _tp((K, H), cplx)
                w = Parameter.from_unary(MixingWeightParameter((K, H)), tp)
                sl = SumLayer(K, K, arity=H, weight=w)
                self.leaves[i] = Leaf(tp, kind, mat, (K, H))
            elif kind == "had":
                kin = beh["layers"][l["ins"][0] - 1]["K"]
                sl = HadamardLayer(kin, arity=len(l["ins"]))
            elif kind == "kron":
                kin = beh["layers"][l["ins"][0] - 1]["K"]
                sl = KroneckerLayer(kin, arity=len(l["ins"]))
            else:
                raise ValueError(f"unknown layer kind {kind}")
            self.layers.append(sl)
            if l["ins"]:
                in_layers[sl] = [self.layers[j - 1] for j in l["ins"]]
        self.in_layers = in_layers
        self.outputs = [self.layers[j - 1] for j in beh["outs"]]
        self.circuit = Circuit(self.layers, in_layers, self.outputs)
        self.has_complex = any(not nums.matrix_is_real(m) for m in store if m)
        self.nonneg = all(nums.matrix_nonneg(m) for m in store if m)
        self.has_poly = any(l["kind"] == "poly" for l in beh["layers"])

    # ------------------------------------------------------------------ operators
    def apply_ops(self):
        """Returns the pool: list of Circuit or Refused, index 0 = base circuit."""
        pool = [self.circuit]
        for t in self.beh["ops"]:
            pool.append(self._apply(t, pool))
        return pool

    def _apply(self, t, pool):
        def arg(i):
            c = pool[i - 1]
            if isinstance(c, Refused):
                raise c
            return c

        op = t["op"]
        try:
            if op == "integrate":
                return SF.integrate(arg(t["a"]), Scope([self.ids[v - 1] for v in t["Z"]]))
            if op == "multiply":
                return SF.multiply(arg(t["a"]), arg(t["b"]))
            if op == "evidence":
                obs = {self.ids[v - 1]: val for v, val in zip(t["vars"], t["vals"])}
                if self.has_poly:
                    obs = {k: float(v) for k, v in obs.items()}
                return SF.evidence(arg(t["a"]), obs)
            if op == "conjugate":
                return SF.conjugate(arg(t["a"]))
            if op == "concat":
                return SF.concatenate([arg(i) for i in t["args"]])
            if op == "differentiate":
                return SF.differentiate(arg(t["a"]), order=t["k"])
        except Refused as r:
            return r
        except Exception as e:  # pylint: disable=broad-except
            return Refused(e)
        raise ValueError(f"unknown operator {op}")

    # ------------------------------------------------------------------ parameters
    def load_store(self, compiler, only=None):
        """Write the model's store into the compiled tensors through the registry slices."""
        for i, leaf in self.leaves.items():
            if only is not None and i not in only:
                continue
            t, idx = compiler.state.retrieve_compiled_parameter(leaf.tensor)
            with torch.no_grad():
                dst = t()
                dst[idx].copy_(leaf.value(dst.dtype))

    # ------------------------------------------------------------------ inputs
    def assignments(self):
        return list(itertools.product(*[range(n) for n in self.dom]))

    def batch(self, rows, floating=None):
        """rows: list of model assignments -> tensor (B, width) with one column per variable id."""
        if floating is None:
            floating = self.has_poly
        x = np.zeros((len(rows), self.width), dtype=np.float64 if floating else np.int64)
        for b, r in enumerate(rows):
            for v, val in enumerate(r):
                x[b, self.ids[v]] = val
        return torch.from_numpy(x)


def to_linear(out, semiring):
    """Compiled output (B, O, K) in the given semiring -> complex numpy array, linear domain."""
    o = out.detach().to(torch.complex128)
    if semiring != "sum-product":
        # exp of a log-space value.  A real part of -inf is an exact zero whatever the phase is
        # (the phase of zero is undefined: cirkit may produce -inf+nan*j, e.g. from 0 * x in
        # complex log space; torch.exp(-inf + i*theta) itself evaluates to nan)
        mag = torch.exp(o.real)
        phase = torch.polar(torch.ones_like(o.real), torch.nan_to_num(o.imag, nan=0.0))
        zero = (o.real == float("-inf"))
        bad = torch.isnan(o.imag) & ~zero
        o = torch.where(zero, torch.zeros_like(phase), mag.to(torch.complex128) * phase)
        o = torch.where(bad, torch.full_like(o, float("nan")), o)
    return o.numpy()


def expected_array(expect, rows_idx):
    """expect['table'][q][o][u] complex dyadic -> numpy complex (B, O, K) for the chosen rows."""
    tab = expect["table"]
    return np.array(
        [[[nums.cfloat(e) for e in o] for o in tab[q]] for q in rows_idx], dtype=np.complex128
    )


def close(obs, exp, rtol=1e-9):
    if obs.shape != exp.shape:
        return False
    if not np.all(np.isfinite(obs)):
        return False
    return bool(np.all(np.abs(obs - exp) <= rtol * np.maximum(1.0, np.abs(exp))))
