"""JSON behaviour (emitted by TLC from specs/CircuitSys.tla) <-> cirkit objects.

Only cirkit's public API is used, plus `TorchCompiler.state.retrieve_compiled_parameter`
(public attribute) to write parameter values through the registry slice.
"""
import itertools
import math

import numpy as np
import torch

from cirkit.symbolic.circuit import Circuit
from cirkit.symbolic.dtypes import DataType
from cirkit.symbolic.initializers import ConstantTensorInitializer, NormalInitializer
from cirkit.symbolic.layers import (
    CategoricalLayer,
    ConstantValueLayer,
    EmbeddingLayer,
    HadamardLayer,
    KroneckerLayer,
    PolynomialLayer,
    SumLayer,
)
from cirkit.symbolic.parameters import MixingWeightParameter, Parameter, TensorParameter
from cirkit.utils.scope import Scope
import cirkit.symbolic.functional as SF

from . import nums

torch.set_default_dtype(torch.float64)
torch.set_num_threads(1)

RHOS = [(0, 1, 2, 3), (1, 3, 8, 11), (2, 9, 16, 17)]
SEMIRINGS = ["sum-product", "lse-sum", "complex-lse-sum"]
ALL_FLAGS = [(s, f, o) for s in SEMIRINGS for f in (False, True) for o in (False, True)]

LOG_KINDS = {"catl", "clog"}          # leaves stored in log space (chart = log)
INPUT_KINDS = {"emb", "catp", "catl", "poly", "const", "clog", "binom"}


class Refused(Exception):
    """An operator refused (raised) at application time."""

    def __init__(self, exc, dependent=False):
        super().__init__(repr(exc))
        self.exc = exc
        self.dependent = dependent    # an operand had been refused already


def chart_array(kind, matrix, shape):
    """complex dyadic matrix (linear domain) -> complex numpy array in the leaf's own domain"""
    m = np.array(nums.matrix_complex(matrix), dtype=np.complex128).reshape(shape)
    if kind in LOG_KINDS:
        with np.errstate(divide="ignore"):
            m = np.log(m.real).astype(np.complex128)
    return m


class Leaf:
    def __init__(self, kind, matrices, shape, cplx, init, learnable=True):
        self.kind = kind              # layer kind (decides the chart)
        self.matrices = matrices      # one complex dyadic matrix (linear domain) per store version
        self.shape = shape
        self.cplx = cplx
        self.learnable = learnable
        if init == "const":
            a = chart_array(kind, matrices[0], shape)
            ini = ConstantTensorInitializer(a if cplx else a.real.copy())
        else:
            ini = NormalInitializer()
        self.tensor = TensorParameter(
            *shape, initializer=ini, learnable=learnable,
            dtype=DataType.COMPLEX if cplx else DataType.REAL)

    def linear(self, v=1):
        return np.array(nums.matrix_complex(self.matrices[v - 1]),
                        dtype=np.complex128).reshape(self.shape)

    def value(self, dtype, v=1):
        t = torch.from_numpy(chart_array(self.kind, self.matrices[v - 1], self.shape))
        if not dtype.is_complex:
            t = t.real.to(dtype)
        return t.to(dtype)


class Built:
    """The base circuits of a behaviour, built through the public constructors."""

    def __init__(self, beh, rho, init="random", freeze=0):
        """freeze: 0 = every tensor is learnable; n > 0: the tensors of the layers i with
        (i + n) % 3 == 0 are frozen (learnable=False)"""
        self.freeze = freeze
        self.beh = beh
        self.rho = rho
        self.init = init
        self.dom = beh["dom"]
        self.V = len(self.dom)
        self.ids = [rho[v] for v in range(self.V)]
        self.width = max(self.ids) + 1
        self.layers = []
        self.leaves = {}
        in_layers = {}
        stores = beh["stores"]
        nver = len(stores)
        L = beh["layers"]
        for i, l in enumerate(L):
            kind = l["kind"]
            K = l["K"]
            mats = [stores[v][i] for v in range(nver)]
            cplx = any(bool(m) and not nums.matrix_is_real(m) for m in mats)
            if kind in ("const", "clog"):
                sc = Scope([])
            elif kind in INPUT_KINDS:
                sc = Scope([self.ids[l["var"] - 1]])

            def leaf(shape, real_only=False):
                lf = Leaf(kind, mats, shape, cplx and not real_only, init,
                          learnable=not (self.freeze and (i + self.freeze) % 3 == 0))
                self.leaves[i] = lf
                return lf.tensor

            if kind == "emb":
                N = self.dom[l["var"] - 1]
                sl = EmbeddingLayer(sc, K, num_states=N, weight=Parameter.from_input(leaf((K, N))))
            elif kind == "catp":
                N = self.dom[l["var"] - 1]
                sl = CategoricalLayer(sc, K, num_categories=N,
                                      probs=Parameter.from_input(leaf((K, N), True)))
            elif kind == "catl":
                N = self.dom[l["var"] - 1]
                sl = CategoricalLayer(sc, K, num_categories=N,
                                      logits=Parameter.from_input(leaf((K, N), True)))
            elif kind == "poly":
                deg = beh["polydeg"]
                sl = PolynomialLayer(sc, K, degree=deg,
                                     coeff=Parameter.from_input(leaf((K, deg + 1))))
            elif kind in ("const", "clog"):
                sl = ConstantValueLayer(K, log_space=(kind == "clog"),
                                        value=Parameter.from_input(leaf((K,))))
            elif kind == "sum":
                H = len(l["ins"])
                kin = L[l["ins"][0] - 1]["K"]
                sl = SumLayer(kin, K, arity=H, weight=Parameter.from_input(leaf((K, H * kin))))
            elif kind == "mix":
                H = len(l["ins"])
                w = Parameter.from_unary(MixingWeightParameter((K, H)), leaf((K, H)))
                sl = SumLayer(K, K, arity=H, weight=w)
            elif kind == "had":
                sl = HadamardLayer(L[l["ins"][0] - 1]["K"], arity=len(l["ins"]))
            elif kind == "kron":
                sl = KroneckerLayer(L[l["ins"][0] - 1]["K"], arity=len(l["ins"]))
            else:
                raise ValueError(f"unknown layer kind {kind}")
            self.layers.append(sl)
            if l["ins"]:
                in_layers[sl] = [self.layers[j - 1] for j in l["ins"]]
        self.in_layers = in_layers
        self.circuits = []
        self.reach = []
        for outs in beh["bases"]:
            r = self._reach(outs)
            ls = [self.layers[j - 1] for j in sorted(r)]
            ins = {sl: v for sl, v in in_layers.items() if sl in set(ls)}
            self.reach.append(r)
            self.circuits.append(Circuit(ls, ins, [self.layers[j - 1] for j in outs]))
        self.circuit = self.circuits[0]
        allm = [m for st in stores for m in st if m]
        self.has_complex = any(not nums.matrix_is_real(m) for m in allm)
        self.nonneg = all(nums.matrix_nonneg(m) for m in allm)
        self.has_poly = any(l["kind"] == "poly" for l in L)

    def _reach(self, outs):
        L = self.beh["layers"]
        seen = set()
        stack = list(outs)
        while stack:
            j = stack.pop()
            if j in seen:
                continue
            seen.add(j)
            stack.extend(L[j - 1]["ins"])
        return seen

    # ------------------------------------------------------------------ operators
    def apply_ops(self):
        """Returns the pool: list of Circuit or Refused; bases first, then operator results."""
        pool = list(self.circuits)
        for t in self.beh["ops"]:
            pool.append(self._apply(t, pool))
        return pool

    def _apply(self, t, pool):
        def arg(i):
            c = pool[i - 1]
            if isinstance(c, Refused):
                raise c
            return c

        op = t["op"]
        try:
            if op == "integrate":
                return SF.integrate(arg(t["a"]), Scope([self.ids[v - 1] for v in t["Z"]]))
            if op == "multiply":
                return SF.multiply(arg(t["a"]), arg(t["b"]))
            if op == "evidence":
                obs = {self.ids[v - 1]: (val / 2 ** t.get("ed", 0) if t.get("ed", 0) else val)
                       for v, val in zip(t["vars"], t["vals"])}
                if self.has_poly:
                    # continuous variables: the first observed value is given as a Python int,
                    # the others as floats (mixed int / float observations are legal)
                    obs = {k: (int(v) if n == 0 and float(v).is_integer() else float(v))
                           for n, (k, v) in enumerate(obs.items())}
                return SF.evidence(arg(t["a"]), obs)
            if op == "conjugate":
                return SF.conjugate(arg(t["a"]))
            if op == "concat":
                return SF.concatenate([arg(i) for i in t["args"]])
            if op == "differentiate":
                return SF.differentiate(arg(t["a"]), order=t["k"])
        except Refused as r:
            return Refused(r.exc, dependent=True)
        except Exception as e:  # pylint: disable=broad-except
            return Refused(e)
        raise ValueError(f"unknown operator {op}")

    # ------------------------------------------------------------------ parameters
    def write_leaf(self, compiler, i, v, how="copy"):
        """Write version v of leaf i into its compiled tensor through the registry slice,
        by an in-place copy or by one SGD step with a crafted gradient."""
        leaf = self.leaves[i]
        t, idx = compiler.state.retrieve_compiled_parameter(leaf.tensor)
        dst = t()
        new = leaf.value(dst.dtype, v)
        if how == "sgd" and dst.requires_grad and not dst.dtype.is_complex:
            ptensor = dst
            g = torch.zeros_like(ptensor)
            g[idx] = ptensor.detach()[idx] - new
            ptensor.grad = g
            torch.optim.SGD([ptensor], lr=1.0).step()
            ptensor.grad = None
            with torch.no_grad():      # remove rounding of old - (old - new)
                ptensor[idx].copy_(new)
        else:
            with torch.no_grad():
                dst[idx].copy_(new)

    def load_store(self, compiler, ver=None, only=None):
        """Write the model's store into the compiled tensors through the registry slices."""
        for i in self.leaves:
            if only is not None and i not in only:
                continue
            if not compiler.state.has_compiled_parameter(self.leaves[i].tensor):
                continue
            self.write_leaf(compiler, i, 1 if ver is None else ver[i])

    # ------------------------------------------------------------------ inputs
    def assignments(self):
        return list(itertools.product(*[range(n) for n in self.dom]))

    def batch(self, rows, floating=None):
        """rows: list of model assignments -> tensor (B, width) with one column per variable id."""
        if floating is None:
            floating = self.has_poly
        x = np.zeros((len(rows), self.width), dtype=np.float64 if floating else np.int64)
        for b, r in enumerate(rows):
            for v, val in enumerate(r):
                x[b, self.ids[v]] = val
        return torch.from_numpy(x)


def to_linear(out, semiring):
    """Compiled output (B, O, K) in the given semiring -> complex numpy array, linear domain."""
    o = out.detach().to(torch.complex128)
    if semiring != "sum-product":
        # exp of a log-space value.  A real part of -inf is an exact zero whatever the phase is
        # (the phase of zero is undefined: cirkit may produce -inf+nan*j, e.g. from 0 * x in
        # complex log space; torch.exp(-inf + i*theta) itself evaluates to nan)
        mag = torch.exp(o.real)
        phase = torch.polar(torch.ones_like(o.real), torch.nan_to_num(o.imag, nan=0.0))
        zero = (o.real == float("-inf"))
        bad = torch.isnan(o.imag) & ~zero
        o = torch.where(zero, torch.zeros_like(phase), mag.to(torch.complex128) * phase)
        o = torch.where(bad, torch.full_like(o, float("nan")), o)
    return o.numpy()


def expected_array(expect, rows_idx):
    """table[q][o][u] complex dyadic -> numpy complex (B, O, K) for the chosen rows."""
    tab = expect["table"] if isinstance(expect, dict) else expect
    return np.array(
        [[[nums.cfloat(e) for e in o] for o in tab[q]] for q in rows_idx], dtype=np.complex128
    )


def close(obs, exp, rtol=1e-9):
    if obs.shape != exp.shape:
        return False
    if not np.all(np.isfinite(obs)):
        return False
    return bool(np.all(np.abs(obs - exp) <= rtol * np.maximum(1.0, np.abs(exp))))
