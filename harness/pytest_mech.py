"""pytest plugin (-p harness.pytest_mech): installs the mechanism tracer in the test process, so
that the repository's own tests become a source of traces for TraceFold.tla / TraceOpt.tla."""
from . import mech_trace


def pytest_configure(config):  # pylint: disable=unused-argument
    mech_trace.install()
