"""./check --selftest : demonstrates that the specification is bound to the implementation.

1. direction A: a behaviour emitted by TLC replays cleanly; the same behaviour with one expected
   table entry corrupted, or with its parameter store corrupted, is reported as a value failure.
2. direction B: recorded pipeline sessions are accepted by TracePipeline.tla; the same sessions with
   one logged field corrupted (active context), with one event removed (a Compile call), or with one
   compiled-object identity changed are rejected, and the failing clause is named.
Exit 0 iff every expectation holds.
"""
import copy

from . import configs, pipeline_props, runner, sem_props, semantic, tlcrun


def run():
    ok = True

    def expect(cond, msg):
        nonlocal ok
        print(("ok   " if cond else "FAIL ") + msg)
        ok = ok and cond

    # ---------------- direction A
    consts = sem_props.cfg(InnerKinds={"sum", "had", "kron", "mix"}, MaxL=3, EmitSmall=3)
    mod, cf = configs.write("selftest_a", "CircuitSys", consts, invariants=["TypeOK", "EmitInv"])
    pay, stats = tlcrun.run_tlc(mod, cf, "selftest_a", coverage=False)
    behs = pay["VP"]
    expect(len(behs) > 10, f"TLC emitted {len(behs)} behaviours ({stats.get('distinct')} states)")
    beh = next(b for b in behs if len(b["layers"]) == 3 and b["layers"][2]["kind"] == "sum")
    r = semantic.replay(beh, "thorough", 0, {})
    expect(not r["failures"] and r["evals"] > 0,
           f"clean behaviour replays without failure ({r['evals']} evaluations, 12 flag sets)")
    bad = copy.deepcopy(beh)
    e = bad["expect"][0]["table"][0][0][0]
    e[0][0] = int(e[0][0]) + 1
    r = semantic.replay(bad, "thorough", 0, {})
    expect(any(f["kind"] == "value" for f in r["failures"]),
           "corrupting one entry of the expected table is reported as a value failure")
    bad = copy.deepcopy(beh)
    row = bad["stores"][0][2][0]
    row[0][0][0] = int(row[0][0][0]) + 1                  # one sum weight of the parameter store
    r = semantic.replay(bad, "thorough", 0, {})
    expect(any(f["kind"] == "value" for f in r["failures"]),
           "corrupting one parameter value (store and expectation now disagree) is reported")

    # ---------------- direction B
    rep = runner.Report("selftest", "quick", 0)
    sessions = [pipeline_props.record_session(1000 + k, 25) for k in range(4)]
    pay, _ = pipeline_props.validate_traces(rep, sessions, "selftest_ok")
    expect(len(pay["ACCEPT"]) == 4 and not pay["REJECT"], "4 recorded sessions are accepted by TracePipeline.tla")
    s1 = copy.deepcopy(sessions)
    ev = next(e for e in s1[0] if e["a"] == "Enter")
    ev["active"] = 0                                       # corrupt one logged field
    s2 = copy.deepcopy(sessions)
    k = next(i for i, e in enumerate(s2[1]) if e["a"] == "Compile")
    del s2[1][k]                                           # remove one hook / event
    s3 = copy.deepcopy(sessions)
    last = s3[2][-1]
    flat = [(c, i) for c, col in enumerate(last["comp"]) for i, v in enumerate(col) if v]
    if flat:
        c, i = flat[0]
        last["comp"][c][i] = 999                           # a compiled object was "replaced"
    pay, _ = pipeline_props.validate_traces(rep, [s1[0], s2[1], s3[2]], "selftest_bad")
    rej = {int(x["tid"]): x for x in pay["REJECT"]}
    expect(1 in rej and int(rej[1]["clause"]) == 3, f"corrupted 'active' field rejected by clause 3: {rej.get(1)}")
    expect(2 in rej, f"trace with a removed Compile event rejected: {rej.get(2)}")
    expect((3 in rej and int(rej[3]["clause"]) in (8, 9)) or not flat,
           f"changed object identity rejected by the renaming clauses: {rej.get(3)}")
    # ---------------- Tier M: the mechanism model is not vacuous
    _, st = tlcrun.run_tlc("FoldSys.tla", "FoldSys_exact.cfg", "selftest_fold", coverage=False)
    expect(st.get("completed") and not st.get("invariant_violated"),
           f"FoldSys.tla (shortcut condition of the code) refines the unfolded semantics ({st.get('distinct')} states)")
    _, st = tlcrun.run_tlc("FoldSys.tla", "FoldSys_sorted.cfg", "selftest_fold2", coverage=False)
    expect(st.get("invariant_violated") == "FoldRefines",
           "FoldSys.tla with the weakened shortcut condition of seeded change C01-m1 violates FoldRefines")
    _, st = tlcrun.run_tlc("OptSys.tla", "OptSys_noconsumers.cfg", "selftest_opt1", coverage=False)
    expect(st.get("invariant_violated") in ("OptRefines", "Disjoint"),
           "OptSys.tla without the single-consumer test (seeded change C02-m1) violates "
           f"{st.get('invariant_violated')}")
    _, st = tlcrun.run_tlc("OptSys.tla", "OptSys_nooutputs.cfg", "selftest_opt2", coverage=False)
    expect(st.get("invariant_violated") == "OptRefines",
           "OptSys.tla without the not-an-output test (the defect repaired by 081decf) violates OptRefines")
    # ---------------- direction B for the mechanism models (CIRKIT_VERIF hook of the compiler)
    import os  # pylint: disable=import-outside-toplevel
    from . import mech_trace  # pylint: disable=import-outside-toplevel
    os.makedirs(tlcrun.WORK, exist_ok=True)
    prefix = os.path.join(tlcrun.WORK, f"selftest_mech_{os.getpid()}")
    os.environ["VERIF_MECH_TRACE"] = prefix
    expect(mech_trace.install(), "the CIRKIT_VERIF hook of cirkit.backend.torch.compiler is present")
    from cirkit.backend.torch.compiler import TorchCompiler  # pylint: disable=import-outside-toplevel
    from cirkit.symbolic.circuit import Circuit  # pylint: disable=import-outside-toplevel
    from cirkit.symbolic.layers import (  # pylint: disable=import-outside-toplevel
        EmbeddingLayer, HadamardLayer, KroneckerLayer, SumLayer)
    from cirkit.utils.scope import Scope  # pylint: disable=import-outside-toplevel
    e1 = EmbeddingLayer(Scope([0]), 2, num_states=2)
    e2 = EmbeddingLayer(Scope([1]), 2, num_states=2)
    k = KroneckerLayer(2, arity=2)
    s0 = SumLayer(4, 1, arity=1)
    c1 = Circuit([e1, e2, k, s0], {k: [e2, e1], s0: [k]}, [s0])
    hd = HadamardLayer(2, arity=2)
    s1, s2 = SumLayer(2, 2, arity=1), SumLayer(2, 2, arity=1)
    c2 = Circuit([e1, e2, hd, s1, s2], {hd: [e1, e2], s1: [hd], s2: [s1]}, [s2])
    for c in (c1, c2):
        for fold, opt in ((True, False), (False, True), (True, True)):
            TorchCompiler(semiring="sum-product", fold=fold, optimize=opt).compile(c)
    fold_recs, opt_recs, errs = mech_trace.collect(prefix)
    rep2 = runner.Report("selftest", "quick", 0)
    sm = mech_trace.validate_records(rep2, fold_recs, opt_recs, "selftest_ok")
    expect(not errs and sm.get("fold_accepted") == len(fold_recs) > 0 and sm.get("opt_accepted") == len(opt_recs) > 0,
           f"observed folding / fusion passes are accepted by TraceFold.tla / TraceOpt.tla: {sm}")
    bad_fold = copy.deepcopy(fold_recs)
    for r in bad_fold:
        for b in r["book"]:
            if b["kind"] == "none":
                b["kind"], b["idx"] = "dim0", []       # the gather replaced by an unsqueeze
    bad_opt = copy.deepcopy(opt_recs)
    for r in bad_opt:
        r["after"][-1]["ins"] = list(reversed(r["after"][-1]["ins"])) if len(r["after"][-1]["ins"]) > 1 \
            else [1]                                   # a fused layer wired to other inputs
    rep3 = runner.Report("selftest", "quick", 0)
    n_none = sum(1 for r in fold_recs if any(b["kind"] == "none" for b in r["book"]))
    sm = mech_trace.validate_records(rep3, bad_fold, bad_opt, "selftest_bad")
    expect(sm.get("fold_accepted", 0) == len(fold_recs) - n_none and n_none > 0 and sm.get("opt_accepted", 0) == 0,
           f"corrupted address-book entries / rewired fused layers are rejected: {sm}")
    print("selftest", "passed" if ok else "FAILED")
    return 0 if ok else 1
