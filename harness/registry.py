"""Property id -> run / replay functions and the MANIFEST metadata of each claimed check."""
import os

from . import sem_props
from .main import COMMON_ASSUMPTIONS

PROPS = {}
META = {}
NOT_APPLICABLE = {}
HOOK_COMMITS = ["eb36245"]

NOTE_SEM = ("Trusted base: TLC's evaluation of specs/Sem.tla (reference semantics over exact complex "
            "dyadic rationals / Taylor jets), the JSON emission, the adapter that builds cirkit "
            "objects through public constructors and writes parameter values through "
            "TorchCompiler.state.retrieve_compiled_parameter, float64 comparison at rtol 1e-9. "
            "Bounded: layers, units, arity, variables, operator-chain length are configuration "
            "constants; parameter values are generic finite valuations, not all reals.")


GAUSS_REL = {"C03": "marginal", "C04": "product", "C07": "conjugate", "C10": "shared"}


def _fold_model_hook(tier):
    """C02, Tier M: the mechanism models of folding / address book (FoldSys.tla) and of the layer
    fusion pass (OptSys.tla) must refine the unfolded / unfused semantics for the conditions the
    code uses."""
    from . import tlcrun  # pylint: disable=import-outside-toplevel

    def run_hook(rep):
        models = [("FoldSys.tla", "FoldSys_exact.cfg" if tier == "quick" else "FoldSys_exact5.cfg",
                   ["FoldRefines", "Partition"]),
                  ("OptSys.tla", "OptSys_code.cfg",
                   ["OptRefines", "Disjoint", "OrderTopological", "Converges"])]
        rep.extra["mechanism_models"] = []
        for mod, cfg, invs in models:
            try:
                _, stats = tlcrun.run_tlc(mod, cfg, "C02_" + mod[:-4].lower(), coverage=False, timeout=3000)
            except tlcrun.TLCError as e:
                rep.machinery_errors.append(str(e)[-800:])
                continue
            rep.add_tlc("mechanism_model_" + mod[:-4], stats)
            if stats.get("invariant_violated"):
                rep.machinery_errors.append(
                    f"mechanism model {mod}: invariant {stats['invariant_violated']} violated "
                    "(a Tier-M counterexample is not a verdict: see DESIGN.md 5.3)")
            rep.extra["mechanism_models"].append({"module": mod, "config": cfg, "invariants": invs,
                                                  "distinct_states": stats.get("distinct")})
    return run_hook


def _repo_tests_traced(prefix):
    """thorough tier: the repository's own compilation tests as a source of mechanism traces"""
    import subprocess  # pylint: disable=import-outside-toplevel
    import sys  # pylint: disable=import-outside-toplevel
    repo = os.environ.get("VERIF_REPO", "/repo")
    env = dict(os.environ, VERIF_MECH_TRACE=prefix, CIRKIT_VERIF="1")
    cmd = [sys.executable, "-m", "pytest", "-q", "-p", "no:cacheprovider", "-p", "harness.pytest_mech",
           "-n", "8", "tests/backend/torch/test_compile_circuit.py",
           "tests/backend/torch/test_queries", "tests/backend/torch/test_serialization.py",
           "tests/templates", "tests/data_modalities"]
    r = subprocess.run(cmd, cwd=repo, env=env, capture_output=True, text=True, timeout=7200, check=False)
    return r.returncode, (r.stdout or "")[-300:]


def _sem_run(pid, tier, seed, rule, assumptions):
    hook = None
    if pid == "C02":
        from . import mech_trace, tlcrun  # pylint: disable=import-outside-toplevel
        os.makedirs(tlcrun.WORK, exist_ok=True)
        prefix = os.path.join(tlcrun.WORK, f"mechtrace_{tier}_{os.getpid()}")
        os.environ["VERIF_MECH_TRACE"] = prefix
        hooked = mech_trace.install()            # forked replay workers inherit the tracer
        model_hook = _fold_model_hook(tier)

        def hook(rep):                            # pylint: disable=function-redefined
            model_hook(rep)
            if not hooked:
                rep.machinery_errors.append("the CIRKIT_VERIF hook of cirkit.backend.torch.compiler is missing")
                return
            if tier == "thorough":
                rc, tail = _repo_tests_traced(prefix)
                rep.extra["repo_tests_traced"] = {"rc": rc, "tail": tail}
            mech_trace.validate(rep, prefix, f"{pid}_{tier}", limit=1500 if tier == "quick" else None)
    if pid in GAUSS_REL:
        from . import gauss_props  # pylint: disable=import-outside-toplevel
        hook = gauss_props.hook(pid, tier, seed, GAUSS_REL[pid])
        assumptions = assumptions + [
            "Gaussian input layers: the relation is the specification's, its evaluation is numeric "
            "(float64, scipy quadrature, rtol 1e-6 / 1e-7): DESIGN.md section 4.3"]
    return sem_props.run(pid, tier, seed, rule, assumptions, post_hook=hook)


def _sem(pid, rule, text, technique, extra_assumptions=()):
    PROPS[pid] = {
        "run": lambda tier, seed: _sem_run(pid, tier, seed, rule,
                                           COMMON_ASSUMPTIONS + list(extra_assumptions)),
        "replay": lambda path: sem_props.replay_file(path, pid),
    }
    META[pid] = {"text": text, "note": NOTE_SEM, "technique": technique,
                 "design_ref": f"DESIGN.md section 6 ({pid})"}


_sem("C01",
     "TLC enumerates every well-typed layered DAG within the configuration bounds "
     "(CircuitSys: AddInput/AddInner/Finish); each emitted state is one behaviour = one "
     "symbolic circuit + generic store + the Den table computed by TLC; it is built, "
     "compiled under a rotating subset (quick) / all (thorough) of the 12 "
     "semiring x fold x optimize combinations and evaluated on all assignments in batch "
     "shapes all / B=1 / B=fold count / permuted. distinct = distinct TLC states emitted.",
     "Exhaustive (within small constants) TLC enumeration of symbolic circuits with the denoted "
     "function computed by the TLA+ reference semantics; every emitted state is replayed into "
     "cirkit's compiler and the full output table compared, per semiring/fold/optimize and batch "
     "shape. Decides the property for all circuits within the bounds under generic valuations.",
     "TLA+ reference semantics (Sem.tla) + TLC state enumeration (CircuitSys.tla) + replay of "
     "every emitted behaviour into cirkit")

_TECH = ("TLA+ reference semantics of the operator (Sem.tla DenTerm) + TLC enumeration of circuits "
         "and operator applications (CircuitSys.tla ApplyOp) + replay of every emitted behaviour "
         "into cirkit")

_sem("C03",
     "TLC enumerates smooth+decomposable circuits (embedding / categorical probs / logits inputs) "
     "and every non-empty Z (also chains Z1 then Z2, and operands that are products or evidence "
     "results); the expected table of integrate(c, Z) is the marginal sum of Den(c) computed by "
     "TLC; the real SF.integrate result is compiled (same compiler as its operand) and compared on "
     "all assignments under rotating flags.",
     "Exhaustive TLC enumeration (small constants) of circuits x variable subsets with the marginal "
     "computed by the reference semantics; each state replayed through SF.integrate + compile.",
     _TECH)
_sem("C04",
     "TLC enumerates circuits, pairs of compatible circuits (two base circuits), squares, chains "
     "and evidence-conditioned operands; expected = pointwise product of the operand tables with "
     "outputs (i,j) and units in Kronecker order; refusals are admissible, returned circuits must "
     "match.",
     "Exhaustive TLC enumeration of operand circuits and multiply applications with the product "
     "table from the reference semantics; each state replayed through SF.multiply + compile.",
     _TECH)
_sem("C05",
     "TLC enumerates smooth+decomposable polynomial-input circuits and orders k; the expected "
     "outputs are the exact k-th partials (truncated Taylor jets over dyadic rationals) in "
     "increasing variable id followed by the function; variable ids are renumbered with maps whose "
     "frozenset iteration order differs from sorted order.",
     "Exhaustive TLC enumeration with exact derivatives by jet arithmetic in the reference "
     "semantics; each state replayed through SF.differentiate + compile.",
     _TECH)
_sem("C06",
     "TLC enumerates circuits x observed subsets x observed values (and follow-up operators, and "
     "operand lists for concatenate incl. repeated operands and two distinct circuits); expected = "
     "restriction of Den / stacking of operand tables.",
     "Exhaustive TLC enumeration of evidence / concatenate applications with tables from the "
     "reference semantics; each state replayed through SF.evidence / SF.concatenate + compile.",
     _TECH)
_sem("C07",
     "TLC enumerates circuits with complex (Gaussian-integer) and real parameters, conjugate "
     "applied once and twice, and on products / integrals; expected = complex conjugate of the "
     "operand table (reference semantics over complex dyadics).",
     "Exhaustive TLC enumeration with complex-dyadic reference semantics; each state replayed "
     "through SF.conjugate + compile (complex-lse-sum for complex parameters).",
     _TECH)

_TECH_RUN = ("TLA+ state machine of the compile / update / reset / save / load / reload / eval "
             "history (CircuitSys.tla run phase) over the reference semantics; TLC enumerates the "
             "histories; each emitted history is replayed into one cirkit compiler per flag set")

_sem("C02",
     "TLC enumerates circuits and operator pipelines (multi-output, shared sub-circuits, output "
     "layers that feed other layers, free input order) with, for part of the configurations, "
     "run-phase histories of single-parameter updates; every behaviour is compiled under the "
     "four fold x optimize combinations of a rotating semiring (all 12 in thorough), each compared "
     "with the one flag-free expectation; every symbolic tensor must be exactly one valid, "
     "non-aliased slice of one compiled tensor, and an update written through that slice must move "
     "the outputs exactly as the reference semantics says.",
     "Exhaustive TLC enumeration; the four flag combinations are each compared with the same "
     "Tier-R table (hence pairwise); addressability is decided semantically by updates through "
     "the registry slices. Mechanism models FoldSys.tla / OptSys.tla are model-checked (every "
     "DAG with <= 4-5 nodes) and bound to the code by trace validation of every observed folding "
     "and layer-fusion pass (TraceFold.tla / TraceOpt.tla, CIRKIT_VERIF hook).",
     _TECH_RUN + "; TLC model checking of the folding / fusion mechanism models (FoldSys.tla, "
     "OptSys.tla) and trace validation of observed passes against them (TraceFold.tla, TraceOpt.tla)")
_sem("C10",
     "TLC enumerates operator pipelines (1-3 operators) and every history of <= 4-6 steps over "
     "{update one tensor (copy or SGD step), reset_parameters, save, load_state_dict, eval}; "
     "derived circuits are compiled once, before the history, in the same compiler as their "
     "operands; at every eval step every pool entry must equal the reference denotation under the "
     "CURRENT store.",
     "Exhaustive TLC enumeration of update histories over operator pipelines; the defining "
     "relation is re-imposed by the reference semantics after each step.",
     _TECH_RUN)
_sem("C19",
     "TLC enumerates circuits / pipelines and histories over {update, reset, save, reload (fresh "
     "compiler + compile + load_state_dict), eval}; after reload the outputs must equal the "
     "reference denotation under the saved store; state_dict must contain every learnable tensor "
     "(exactly once for base circuits).",
     "Exhaustive TLC enumeration of save / reload histories with the expected tables from the "
     "reference semantics under the saved store.",
     _TECH_RUN)
_sem("C13",
     "TLC computes, by truncated Taylor jets in the designated parameter entry, the exact partial "
     "derivative of every output/unit with respect to hash-selected entries of every symbolic "
     "tensor; autograd of the compiled circuit, mapped back through the registry slice and the "
     "leaf's chart, must equal it under the four fold x optimize combinations (log semirings: "
     "grad * value); gradients must be finite wherever the value is non-zero.",
     "Exact derivatives from the TLA+ reference semantics over jets, compared with torch autograd "
     "per symbolic tensor entry and flag combination.",
     "TLA+ reference semantics over Taylor jets (Sem.tla, th) + TLC enumeration + autograd replay")
_sem("C11",
     "TLC computes the marginal table of every variable subset for each enumerated smooth and "
     "decomposable circuit with categorical inputs (probabilities / logits, normalised or not); "
     "IntegrateQuery is called with per-row masks in the three formats (mask tensor, one scope, "
     "list of scopes), batch sizes 1,2,3,all and the fold counts, and must return per row the "
     "table entry of that row's mask; out-of-scope variables must be rejected.",
     "Exhaustive TLC enumeration with marginal tables from the reference semantics; replay through "
     "IntegrateQuery in all input formats and flag combinations.",
     "TLA+ reference semantics (IntOver) + TLC enumeration + replay through IntegrateQuery")


def _generic(pid, module, rule, text, technique, note=NOTE_SEM, extra_assumptions=()):
    PROPS[pid] = {
        "run": lambda tier, seed: module.run(pid, tier, seed, rule,
                                             COMMON_ASSUMPTIONS + list(extra_assumptions)),
        "replay": lambda path: module.replay_file(path, pid),
    }
    META[pid] = {"text": text, "note": note, "technique": technique,
                 "design_ref": f"DESIGN.md section 6 ({pid})"}


from . import struct_props  # noqa: E402  pylint: disable=wrong-import-position

NOTE_STRUCT = ("Trusted base: TLC's evaluation of specs/Structure.tla (set-based definitions) and of "
               "the outcome classes in CircuitSys.tla (PreOf); the replayer's builder; for operator "
               "RESULTS the definitions are re-evaluated on the returned circuit's layer scopes by "
               "a 20-line definitional function in harness/struct_props.py. Bounded by the "
               "configuration constants (layers, variables, arity).")

_generic("C08", struct_props,
         "TLC enumerates layered DAGs over scopes only (non-smooth and non-decomposable ones, "
         "empty-scope layers, sums and products listing their inputs in any order, one or two "
         "circuits, multi-output) and computes smooth / decomposable / structured-decomposable / "
         "compatible from the definitions; cirkit's is_smooth / is_decomposable must be equal, "
         "is_structured_decomposable / are_compatible must imply the definition, are_compatible "
         "must be symmetric, and all answers must be invariant under permutations of every product's "
         "input list and under renumberings of the variables (incl. non-monotone ones).",
         "Exhaustive TLC enumeration of circuit structures with the predicates decided by their "
         "definitions in Structure.tla; every state compared with cirkit's answers under input "
         "permutations and variable renumberings.",
         "TLA+ definitions (Structure.tla) + TLC enumeration (CircuitSys.tla, EmitStructInv) + "
         "replay into cirkit's structural predicates", note=NOTE_STRUCT)
_generic("C09", struct_props,
         "TLC enumerates circuits (valid and invalid) and operator calls with valid and invalid "
         "arguments (Invalid = TRUE: empty / out-of-scope Z and observations, orders <= 0, "
         "non-smooth / non-decomposable operands, incompatible pairs) and computes each call's "
         "outcome class from the documented contract (PreOf) and the promised scope / number of "
         "outputs; cirkit must raise StructuralPropertyError / reject / return accordingly and "
         "every returned circuit must be smooth and decomposable by definition, products of SD "
         "operands SD and compatible with both operands, conjugation flag-preserving.",
         "Exhaustive TLC enumeration of operator calls with the contract's outcome class computed "
         "in TLA+; every call replayed and its outcome / result structure compared.",
         "TLA+ operator contract (CircuitSys.tla PreOf, Structure.tla) + TLC enumeration + replay "
         "of every operator call", note=NOTE_STRUCT)

from . import pipeline_props  # noqa: E402  pylint: disable=wrong-import-position

_generic("C18", pipeline_props,
         "TLC explores Pipeline.tla (2-3 context objects + the default one, <= 2-3 symbolic "
         "circuits, histories <= 6-7 of NewBase / SymOp / Enter / Exit / ExitExc / Compile "
         "(explicit or through the active context) / CompOp / BadOp), checks on every state that "
         "the symbolic<->compiled association is a bijection, operands are compiled first and "
         "once, objects are never replaced; witness histories carry the abstract state after every "
         "call and are replayed on real PipelineContext objects, comparing active context, operator "
         "registry, is_compiled / get_compiled / get_symbolic answers, object identity and compile "
         "order after EACH call. In the other direction, seeded random sessions (40-80 calls, "
         "nested contexts, exceptional exits) are recorded as ndjson and validated by "
         "TracePipeline.tla with object identities matched up to a stable injective renaming.",
         "Model checking of the context/registry state machine with invariants, replay of TLC "
         "witness histories with per-step state comparison, and TLC validation of traces recorded "
         "from the implementation.",
         "TLA+ state machine (Pipeline.tla) model-checked with TLC; behaviours replayed into "
         "cirkit; recorded traces validated by TracePipeline.tla",
         note=("Trusted base: TLC, the replayer/driver, instance-level wrapping of the public "
               "register_compiled_circuit method to observe compile order, reading the private "
               "names cirkit.pipeline._PIPELINE_CONTEXT, PipelineContext._compiler and "
               "PipelineContext._op_registry (read-only). Re-entering an active context is excluded "
               "as the property excludes it. Bounds: contexts, circuits, history length."))

from . import param_props  # noqa: E402  pylint: disable=wrong-import-position

_generic("C14", param_props,
         "TLC enumerates parameter graphs: node type (index, sum, Hadamard, Kronecker, outer "
         "product / sum, square, clamp, conjugate, reductions, mixing weights, polynomial product / "
         "differential, Gaussian-product mean / stddev, and through log-charts exp, log, softplus, "
         "sigmoid, scaled sigmoid, softmax, log-softmax, reduce-LSE) x leaf shapes of rank 1-3 x "
         "every axis (passed non-negative or negative) x compositions of depth <= 3 x leaf kinds "
         "(tensor, constant, reference) and computes the documented function over exact rationals "
         "for two leaf valuations; the compiled graph must have the declared shape and the "
         "expected values, and every node re-instantiated with two folds must map the two stacked "
         "valuations to the two expected results.",
         "Transcription of every parameter node's documented function into TLA+ over exact "
         "rationals; TLC's state graph is turned into one implementation test per state.",
         "TLA+ tensor semantics of parameter nodes (ParamSys.tla) + TLC enumeration + replay through "
         "compile_parameter and folded node instantiation",
         note=("Trusted base: TLC's evaluation of ParamSys.tla, numpy charts (log/exp) for the "
               "transcendental nodes, float64 comparison at rtol 1e-9. Gaussian-product "
               "log-partition is not covered (no rational form). Bounded shapes and depth."))

from . import rg_props  # noqa: E402  pylint: disable=wrong-import-position

_generic("C16", rg_props,
         "A seeded driver calls RandomBinaryTree, LinearTree, FullyFactorized, QuadTree, QuadGraph, "
         "PoonDomingos and ChowLiuTree over their valid argument space (sizes 1..16, depths, "
         "repetitions, seeds, orderings, image shapes incl. odd and 1xn, deltas as scalar / list / "
         "list of lists, max_depth, categorical / Gaussian / mixed data with every root) and with "
         "invalid arguments; each call is recorded (regions, partitions with parent and children, "
         "roots, SD flag, the dump->load image, the layer structure of circuits built with cp / "
         "cp-t / tucker and with explicit sum / product factories for several unit counts) and "
         "TLC validates every record against the definitions in TraceRG.tla.",
         "Trace validation (direction B): validity of region graphs and of the circuits built from "
         "them is a TLA+ predicate evaluated by TLC on records of real executions.",
         "TLA+ validity predicates (TraceRG.tla) evaluated by TLC on ndjson records of real "
         "region-graph constructions and build_circuit calls",
         note=("Trusted base: TLC, the recorder (reads the public RegionGraph / Circuit API). The "
               "argument space is sampled (seeded), not exhaustive; optimality of the Chow-Liu tree "
               "is not specified, only validity."))

from . import template_props  # noqa: E402  pylint: disable=wrong-import-position

_generic("C20", template_props,
         "A seeded driver builds circuits with the real cp / tucker / tensor_train / hmm / "
         "fully_factorized templates (shapes up to 3x3x3(x3), ranks 1-3, embedding and categorical "
         "factors, weighted / unweighted CP, every ordering of <= 4 HMM variables with a different "
         "number of categories per variable id), loads generic integers into every symbolic tensor, "
         "evaluates the compiled circuit on every index tuple under rotating flag combinations, "
         "and records the factor tables by their documented roles; TLC recomputes the documented "
         "CP / Tucker / tensor-train contraction, the HMM joint (backward recursion over the given "
         "ordering) and the fully factorised product, and checks that variable v's input layer has "
         "the arguments given for variable id v; random deterministic and decomposable "
         "propositional formulas (decision DAGs over <= 4 variables) are built as LogicalCircuit, "
         "compiled with the default literal inputs, evaluated on every assignment (truth value) and "
         "integrated (model count).",
         "Trace validation (direction B): the documented formulas are TLA+ operators over integer "
         "factor tables, evaluated by TLC on records of real template circuits.",
         "TLA+ formulas (TraceTemplates.tla) evaluated by TLC on ndjson records of real template "
         "constructions and evaluations",
         note=("Trusted base: TLC, the recorder (reads factor tensors by documented role from the "
               "symbolic circuit; activation 'none' so that parameters equal tensor values), exact "
               "integer arithmetic (float64 outputs rounded, deviation > 1e-6 is an error). SDD "
               "files (sdd.py), single-literal formulas and binomial factors are not covered."))

_sem("C15",
     "TLC enumerates smooth and decomposable circuits with normalised parameters (categorical "
     "inputs with normalised dyadic rows; dense / mixing sums of any arity with normalised rows; "
     "Hadamard and Kronecker products) in two schemes: asymmetric normalised rows and one-hot rows; "
     "the exact joint distribution is the Tier-R table. SamplingQuery is run under the four "
     "fold x optimize combinations: shape (n, variables), every sample in the domain and of "
     "positive probability, one-hot circuits must return the unique assignment, empirical "
     "frequencies within 6 sigma of the exact probabilities (re-drawn with 8x more samples and "
     "another seed before a deviation is reported).",
     "Exhaustive TLC enumeration of normalised circuits with the exact joint distribution from the "
     "reference semantics; support and deterministic routing are decided exactly, convergence by a "
     "finite-sample test against the exact distribution.",
     "TLA+ reference semantics (exact joint distribution) + TLC enumeration + replay through "
     "SamplingQuery (exact support / routing checks, 6-sigma frequency test)",
     extra_assumptions=["the convergence clause is a finite-sample statistical test (n = 3000 "
                        "quick / 20000 thorough per circuit and flag set, 6 sigma, confirm step)"])

from . import norm_props  # noqa: E402  pylint: disable=wrong-import-position

_generic("C12", norm_props,
         "Direction A: TLC enumerates smooth and decomposable circuits with normalised input rows "
         "and normalised dense / mixing sum rows and checks on the model itself (invariant NormInv) "
         "that every unit is non-negative and sums to one over its scope; the behaviours are "
         "replayed (evaluation and symbolic integration against the exact tables, four fold x "
         "optimize combinations). Direction B: the real templates (image_data with every region "
         "graph / cp, cp-t, tucker / categorical, binomial, gaussian / mixing or dense; "
         "tabular_data; hmm; fully_factorized; probabilistic cp and tucker) with their own random "
         "unconstrained parameters: compiled integrate = 1 (|log Z| <= 1e-9), brute-force sum = 1 "
         "for small discrete circuits, non-negative values, finite log-space values, also after two "
         "random SGD steps and after reset_parameters; TLC accepts a record iff all clauses hold.",
         "Model checking of the normalisation argument on the specification plus replay, and trace "
         "validation of records measured on the real templates.",
         "TLC invariant NormInv on CircuitSys.tla + replay; TLC validation (TraceTemplates.tla) of "
         "records from real templates",
         note=("Trusted base: TLC, the replayer, float64 evaluation with tolerance 1e-9 for the "
               "template records (their unconstrained parameters are random reals: the expectation "
               "'= 1' is the specification's, the comparison is numeric). Gaussian inputs are "
               "covered only through the compiled symbolic integral."))

from . import init_props  # noqa: E402  pylint: disable=wrong-import-position

_generic("C17", init_props,
         "TLC enumerates initialisation scenarios: 1-3 symbolic weight tensors over a shared input "
         "layer (equal shapes fold together when folding is on), each with its own initialiser "
         "(constant scalar, constant array, Dirichlet with every non-negative and negative axis, "
         "uniform, normal) and learnable flag, followed by 0-2 reset_parameters() calls; the "
         "specification states per tensor the clause that must hold (exact values; sums to one "
         "along the declared axis of the symbolic tensor; bounds; moments; requires_grad = "
         "learnable). The replayer compiles with fold / optimize in {F,T}^2 and reads every tensor "
         "through its registry slice after compilation and after each reset.",
         "Exhaustive TLC enumeration of initialiser x axis x fold-group scenarios with the expected "
         "clause from the specification; replay through compile / reset_parameters and the registry.",
         "TLA+ scenario enumeration (InitSys.tla) + replay through compile, reset_parameters and "
         "registry slices",
         note=("Trusted base: TLC, the replayer; normal initialisers are only checked by a loose "
               "6-sigma bound on the sample mean of the few entries (statistical clause); Dirichlet "
               "concentration values other than the default are not varied."))
