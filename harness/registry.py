"""Property id -> run / replay functions."""
from . import sem_props
from .main import COMMON_ASSUMPTIONS

PROPS = {}


def _sem(pid, rule, extra_assumptions=()):
    PROPS[pid] = {
        "run": lambda tier, seed: sem_props.run(pid, tier, seed, rule,
                                                COMMON_ASSUMPTIONS + list(extra_assumptions)),
        "replay": lambda path: sem_props.replay_file(path, pid),
    }


_sem("C01", "TLC enumerates every well-typed layered DAG within the configuration bounds "
            "(CircuitSys: AddInput/AddInner/Finish); each emitted state is one behaviour = one "
            "symbolic circuit + generic store + the Den table computed by TLC; it is built, "
            "compiled under a rotating subset (quick) / all (thorough) of the 12 "
            "semiring x fold x optimize combinations and evaluated on all assignments in batch "
            "shapes all / B=1 / B=fold count / permuted. distinct = distinct TLC states emitted.")
