"""Property id -> run / replay functions and the MANIFEST metadata of each claimed check."""
from . import sem_props
from .main import COMMON_ASSUMPTIONS

PROPS = {}
META = {}
NOT_APPLICABLE = {}
HOOK_COMMITS = []

NOTE_SEM = ("Trusted base: TLC's evaluation of specs/Sem.tla (reference semantics over exact complex "
            "dyadic rationals / Taylor jets), the JSON emission, the adapter that builds cirkit "
            "objects through public constructors and writes parameter values through "
            "TorchCompiler.state.retrieve_compiled_parameter, float64 comparison at rtol 1e-9. "
            "Bounded: layers, units, arity, variables, operator-chain length are configuration "
            "constants; parameter values are generic finite valuations, not all reals.")


def _sem(pid, rule, text, technique, extra_assumptions=()):
    PROPS[pid] = {
        "run": lambda tier, seed: sem_props.run(pid, tier, seed, rule,
                                                COMMON_ASSUMPTIONS + list(extra_assumptions)),
        "replay": lambda path: sem_props.replay_file(path, pid),
    }
    META[pid] = {"text": text, "note": NOTE_SEM, "technique": technique,
                 "design_ref": f"DESIGN.md section 6 ({pid})"}


_sem("C01",
     "TLC enumerates every well-typed layered DAG within the configuration bounds "
     "(CircuitSys: AddInput/AddInner/Finish); each emitted state is one behaviour = one "
     "symbolic circuit + generic store + the Den table computed by TLC; it is built, "
     "compiled under a rotating subset (quick) / all (thorough) of the 12 "
     "semiring x fold x optimize combinations and evaluated on all assignments in batch "
     "shapes all / B=1 / B=fold count / permuted. distinct = distinct TLC states emitted.",
     "Exhaustive (within small constants) TLC enumeration of symbolic circuits with the denoted "
     "function computed by the TLA+ reference semantics; every emitted state is replayed into "
     "cirkit's compiler and the full output table compared, per semiring/fold/optimize and batch "
     "shape. Decides the property for all circuits within the bounds under generic valuations.",
     "TLA+ reference semantics (Sem.tla) + TLC state enumeration (CircuitSys.tla) + replay of "
     "every emitted behaviour into cirkit")
