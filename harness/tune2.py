"""Development aid: like tune, for struct_props configurations."""
import sys, time
from . import configs, struct_props, tlcrun
pid, tier = sys.argv[1], (sys.argv[2] if len(sys.argv) > 2 else "quick")
only = sys.argv[3] if len(sys.argv) > 3 else None
for name, (consts, opts) in struct_props.configurations(pid, tier, 0).items():
    if only and name != only:
        continue
    mod, cf = configs.write(f"{pid}_{tier}_{name}", "CircuitSys", consts,
                            invariants=["TypeOK", opts.get("emit", "EmitInv")])
    t0 = time.time()
    try:
        pay, st = tlcrun.run_tlc(mod, cf, f"tune_{pid}_{name}", coverage=False, timeout=600)
        print(name, "states", st.get("distinct"), "emitted", len(pay["VP"]), "tlc_s", round(time.time() - t0, 1), st.get("timed_out"))
    except tlcrun.TLCError as e:
        print(name, "ERROR", str(e)[-1500:])
