"""Gaussian input layers: the numeric regime of DESIGN.md section 4.3 (direction B).

TLC has no real arithmetic, so for circuits with Gaussian inputs the specification supplies the
RELATION that must hold (Sem.tla / the property statements) and the driver measures it in float64:

  product   (C04)  multiply(c1, c2)(x) = c1(x) * c2(x)                         on a grid of points
  marginal  (C03)  integrate(c, Z)(y) = numerical integral of c(y, z) over z   (scipy quad)
                   integrate(multiply(c, c)) = numerical integral of c^2       (unnormalised case)
  conjugate (C07)  conjugate(c) = c, conjugate(multiply(c1, c2)) = multiply(c1, c2) and equal
                   integrals, for real parameters; conjugate(conjugate(c)) = c
  shared    (C10)  circuits derived from Gaussian circuits (optionally with an explicit learnable
                   log-partition) hold no learnable tensor of their own and keep satisfying their
                   defining relation after in-place updates of the operands

Each measured relation is one ndjson record (kind "rel") validated by specs/TraceTemplates.tla.
"""
import itertools
import random
import traceback

import numpy as np
import torch
from scipy import integrate as sci

import cirkit.symbolic.functional as SF
from cirkit.backend.torch.compiler import TorchCompiler
from cirkit.symbolic.circuit import Circuit
from cirkit.symbolic.layers import GaussianLayer, HadamardLayer, KroneckerLayer, SumLayer
from cirkit.utils.scope import Scope

from . import rg_props, runner
from .template_props import EMPTY

torch.set_default_dtype(torch.float64)
FLAGS = [("lse-sum", False, False), ("lse-sum", True, True), ("sum-product", True, False),
         ("complex-lse-sum", True, True), ("lse-sum", True, False), ("sum-product", False, True)]


def _tp(shape, lo, hi):
    from cirkit.symbolic.initializers import UniformInitializer  # pylint: disable=import-outside-toplevel
    from cirkit.symbolic.parameters import Parameter, TensorParameter  # pylint: disable=import-outside-toplevel
    return Parameter.from_input(TensorParameter(*shape, initializer=UniformInitializer(lo, hi)))


def gaussian_circuit(rnd, nv, K, prod, lp=False):
    ins = [GaussianLayer(Scope([v]), K, mean=_tp((K,), -1.0, 1.0), stddev=_tp((K,), 0.6, 1.4),
                         log_partition=_tp((K,), -0.5, 0.5) if lp else None)
           for v in range(nv)]
    layers = list(ins)
    in_layers = {}
    if nv == 1:
        top = ins[0]
        kin = K
    else:
        if prod == "kron":
            p = KroneckerLayer(K, arity=nv)
            kin = K ** nv
        else:
            p = HadamardLayer(K, arity=nv)
            kin = K
        layers.append(p)
        in_layers[p] = ins
        top = p
    s = SumLayer(kin, 1, arity=1, weight=_tp((1, kin), 0.2, 1.0))
    layers.append(s)
    in_layers[s] = [top]
    return Circuit(layers, in_layers, [s])


def lin(out, sem):
    out = out.detach()
    if sem == "sum-product":
        return out.to(torch.float64) if not out.is_complex() else out.real
    o = torch.exp(out)
    return o.real if o.is_complex() else o


def close(a, b, rtol=1e-7):
    a, b = np.asarray(a, dtype=np.float64), np.asarray(b, dtype=np.float64)
    return a.shape == b.shape and bool(np.all(np.isfinite(a))) and \
        bool(np.all(np.abs(a - b) <= rtol * np.maximum(1e-12, np.maximum(np.abs(a), np.abs(b))) + 1e-300))


def record(args):
    tid, seed, rel = args
    rnd = random.Random(seed * 65537 + tid)
    torch.manual_seed(seed * 131 + tid)
    rec = dict(EMPTY)
    rec.update({"tid": tid, "ok": True, "kind": "rel", "algo": f"gauss-{rel}", "shape": [], "obs": [],
                "rel": rel, "rel_ok": True})
    try:
        nv = rnd.choice([1, 2])
        K = rnd.choice([1, 2])
        prod = rnd.choice(["had", "kron"])
        flags = FLAGS[tid % len(FLAGS)]
        sem, fold, opt = flags
        rec["flags"] = list(flags)
        lp = rel == "shared" and rnd.random() < 0.7
        c1 = gaussian_circuit(rnd, nv, K, prod, lp=lp)
        c2 = gaussian_circuit(rnd, nv, K, prod, lp=lp) if rnd.random() < 0.6 else c1
        rec["args"] = f"{rel}: {nv} variables, {K} units, {prod}, same operand={c2 is c1}"
        comp = TorchCompiler(semiring=sem, fold=fold, optimize=opt)
        cc1, cc2 = comp.compile(c1), comp.compile(c2)
        grid = torch.tensor(list(itertools.product(*[[-1.3, 0.2, 0.9]] * nv)), dtype=torch.float64)

        def ev(cc, x=grid):
            with torch.no_grad():
                return lin(cc(x), sem)[:, 0, 0].numpy()

        def const(cc):
            with torch.no_grad():
                return float(lin(cc(), sem).reshape(-1)[0])

        def quad_full(fn):
            if nv == 1:
                return sci.quad(lambda a: fn(torch.tensor([[a]]))[0], -np.inf, np.inf, epsabs=1e-12)[0]
            return sci.dblquad(lambda b, a: fn(torch.tensor([[a, b]]))[0], -12, 12, -12, 12,
                               epsabs=1e-10)[0]

        ok = True
        why = ""
        if rel == "product":
            m = comp.compile(SF.multiply(c1, c2))
            ok = close(ev(m), ev(cc1) * ev(cc2))
            why = f"{ev(m)[:3]} vs {(ev(cc1) * ev(cc2))[:3]}"
            if ok:
                # iterated products: both operands of the outer product are themselves products
                # (unnormalised Gaussians with a log-partition), balanced and chained
                p12, p21 = SF.multiply(c1, c2), SF.multiply(c2, c1)
                bal = comp.compile(SF.multiply(p12, p21))
                ok = close(ev(bal), (ev(cc1) * ev(cc2)) ** 2, 1e-6)
                why = f"(c1*c2)*(c2*c1): {ev(bal)[:3]} vs {((ev(cc1) * ev(cc2)) ** 2)[:3]}"
            if ok:
                try:
                    chain = SF.multiply(SF.multiply(c1, c2), c1)
                except Exception:  # pylint: disable=broad-except
                    chain = None            # multiply may refuse (C04: "or raises an error")
                if chain is not None:
                    ch = comp.compile(chain)
                    ok = close(ev(ch), ev(cc1) ** 2 * ev(cc2), 1e-6)
                    why = f"(c1*c2)*c1: {ev(ch)[:3]} vs {(ev(cc1) ** 2 * ev(cc2))[:3]}"
        elif rel == "marginal":
            z = const(comp.compile(SF.integrate(c1)))
            ref = quad_full(lambda x: ev(cc1, x))
            ok = close([z], [ref], 1e-6)
            why = f"integrate(c)={z} quadrature={ref}"
            if ok:
                m = comp.compile(SF.multiply(c1, c2))
                zm = const(comp.compile(SF.integrate(SF.multiply(c1, c2))))
                refm = quad_full(lambda x: ev(m, x))
                ok = close([zm], [refm], 1e-6)
                why = f"integrate(c1*c2)={zm} quadrature={refm}"
            if ok and nv == 2:
                mz = comp.compile(SF.integrate(c1, Scope([1])))
                ys = [-0.7, 0.4]
                got = ev(mz, torch.tensor([[y, 0.0] for y in ys]))
                ref2 = [sci.quad(lambda b, y=y: ev(cc1, torch.tensor([[y, b]]))[0], -np.inf, np.inf,
                                 epsabs=1e-12)[0] for y in ys]
                ok = close(got, ref2, 1e-6)
                why = f"integrate(c, {{1}})={got} quadrature={ref2}"
        elif rel == "conjugate":
            k1 = comp.compile(SF.conjugate(c1))
            ok = close(ev(k1), ev(cc1))
            why = "conj(c) != c"
            if ok:
                pm = SF.multiply(c1, c2)
                m = comp.compile(pm)
                km = comp.compile(SF.conjugate(pm))
                ok = close(ev(km), ev(m))
                why = f"conj(c1*c2)={ev(km)[:3]} c1*c2={ev(m)[:3]}"
                if ok:
                    zi = const(comp.compile(SF.integrate(SF.conjugate(pm))))
                    zj = const(comp.compile(SF.integrate(pm)))
                    ok = close([zi], [zj])
                    why = f"integral of conj(c1*c2)={zi}, of c1*c2={zj}"
                if ok:
                    kk = comp.compile(SF.conjugate(SF.conjugate(pm)))
                    ok = close(ev(kk), ev(m))
                    why = "conj(conj(c1*c2)) != c1*c2"
        elif rel == "shared":
            # C10: derived circuits introduce no learnable tensor and follow in-place updates
            derived = {"integrate": comp.compile(SF.integrate(c1)),
                       "conjugate": comp.compile(SF.conjugate(c1)),
                       "multiply": comp.compile(SF.multiply(c1, c2)),
                       "integrate(multiply)": comp.compile(SF.integrate(SF.multiply(c1, c2)))}
            base = {p.data_ptr() for cc in (cc1, cc2) for p in cc.parameters()}
            for name, d in derived.items():
                new = [tuple(p.shape) for p in d.parameters() if p.requires_grad and p.data_ptr() not in base]
                if new:
                    ok, why = False, f"{name}: new learnable tensors of shapes {new}"
                    break
            for step in range(3):
                if not ok:
                    break
                heavy = nv == 1 or step == 2      # two-dimensional quadrature only after the last update
                if step:
                    with torch.no_grad():
                        for cc in (cc1, cc2):
                            for p in cc.parameters():
                                if p.requires_grad:
                                    p.add_(0.05 * torch.randn_like(p).clamp(-2, 2))
                if heavy:
                    z = const(derived["integrate"])
                    ref = quad_full(lambda x: ev(cc1, x))
                    if not close([z], [ref], 1e-6):
                        ok, why = False, f"after {step} updates: integrate(c)={z} quadrature of c={ref}"
                        break
                if not close(ev(derived["conjugate"]), ev(cc1)):
                    ok, why = False, f"after {step} updates: conjugate(c) != c"
                    break
                if not close(ev(derived["multiply"]), ev(cc1) * ev(cc2)):
                    ok, why = False, f"after {step} updates: multiply(c1, c2) != c1 * c2"
                    break
                if nv == 1:
                    zm = const(derived["integrate(multiply)"])
                    refm = quad_full(lambda x: ev(cc1, x) * ev(cc2, x))
                    if not close([zm], [refm], 1e-6):
                        ok, why = False, f"after {step} updates: integrate(c1*c2)={zm} quadrature={refm}"
                        break
        rec["rel_ok"] = bool(ok)
        if not ok:
            rec["why"] = why
    except Exception as e:  # pylint: disable=broad-except
        rec["ok"] = False
        rec["why"] = repr(e)[:300] + " | " + traceback.format_exc()[-500:]
    return rec


def hook(pid, tier, seed, rel):
    def run_hook(rep):
        n = 60 if tier == "quick" else 1200
        recs = runner.pmap(record, [(k + 1, seed, rel) for k in range(n)], chunksize=2)
        rg_props.validate(rep, recs, pid, tier, "TraceTemplates.tla", "TraceTemplates.cfg")
        rep.extra["gaussian_relation_records"] = len(recs)
    return run_hook
