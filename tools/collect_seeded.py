#!/usr/bin/env python3
"""Copies verified seeded changes from the sub-agents' output directories into /verif/seeded/<id>/
(patch.diff, demo.py, notes.md, meta.json) and regenerates /verif/seeded/INDEX.md."""
import glob, json, os, re, shutil, sys

SRC = "/tmp/wt_out"
DST = "/verif/seeded"
NEEDS = {
 "C01-m1": ("fold address book takes the unsqueeze shortcut when the gathered fold indices are a permutation", "fold=True and a non-commutative layer (Kronecker, sum of arity > 1) listing all slices of a folded layer in non-ascending order"),
 "C01-m2": ("log-space multi-input einsum rescales by the max of the maxima instead of their sum", "lse-sum or complex-lse-sum, optimize=True, an arity-1 sum directly on a Kronecker layer (fused into a Tucker layer)"),
 "C02-m1": ("optimizer fuses a layer that feeds several layers", "optimize=True and a product / sum layer consumed by two or more layers, one of them an arity-1 sum"),
 "C02-m2": ("fold address book ignores input order when choosing the unsqueeze shortcut", "fold=True, inputs covering a folded layer in another order, non-commutative consumer"),
 "C03-m1": ("einsum optimisation emits the flattened outer-product axes swapped", "optimize=True and integrate(multiply(c1, c2)) of two DIFFERENT embedding circuits"),
 "C03-m2": ("ConstantValueLayer.config drops log_space (copyref loses it)", "integrate applied to an already integrated circuit with categorical inputs"),
 "C04-m1": ("Kronecker product rule uses the inverse axis permutation", "multiply of circuits with a Kronecker layer of arity >= 3 and more than one unit"),
 "C04-m2": ("multiply reuses the block of the swapped layer pair", "multiply(c, c) where c has at least two output layers with more than one unit"),
 "C05-m1": ("polynomial differential returns 0 when degree equals the order", "an input polynomial whose degree equals the differentiation order"),
 "C05-m2": ("derivative sum layers wire every input to the first input's derivative", "a sum layer of arity >= 2 in the differentiated circuit"),
 "C06-m1": ("tensor fold settings ignore the dtype", "fold=True, evidence on two polynomial / Gaussian variables with an int value first and a non-integral float value later"),
 "C06-m2": ("concatenate emits an operand's outputs in layer order instead of listed order", "an operand with two outputs listed against the topological order (nested concatenation, differentiate result)"),
 "C07-m1": ("conjugate emits outputs in traversal order", "a multi-output circuit whose declared output order differs from bottom-up order"),
 "C07-m2": ("'real input layer' shortcut does not look through parameter references", "complex embedding / polynomial parameters and conjugate applied to an operator result"),
 "C08-m1": ("decomposability checks adjacent product inputs only", "a product of arity >= 3 whose non-adjacent inputs overlap"),
 "C08-m2": ("compatibility compares sets of factorisations", "two smooth decomposable non-SD circuits with the same set of factorisations (or a circuit with itself)"),
 "C09-m1": ("_are_compatible no longer requires a unique factorisation per scope", "multiply of a non-SD circuit with itself / a same-shape copy"),
 "C09-m2": ("IntegrateQuery validates scopes with a bounds check only", "a compiled circuit whose scope has a hole and a query naming the missing id"),
 "C10-m1": ("compiler parameter registry shared by every compiler instance", "the same symbolic circuit compiled in two compilers, then a derived circuit compiled in the first"),
 "C10-m2": ("pointer parameter caches gathered folds under no_grad, not invalidated by reset", "fold=True, a derived circuit selecting a subset of folds, no_grad evaluation before and after reset_parameters"),
 "C11-m1": ("empty per-sample scopes shift the mask rows", "a list of scopes with an empty scope before a non-empty one"),
 "C11-m2": ("arithmetic blend instead of torch.where (0 * -inf = NaN)", "lse-sum, a categorical probability exactly 0 and that variable marginalised"),
 "C13-m1": ("safe log backward zeroes gradients of sums below machine epsilon", "lse-sum and a max-normalised weighted sum below 1e-16 (e.g. softmax logits 40 apart)"),
 "C13-m2": ("tensor fold settings ignore requires_grad", "fold=True and a frozen tensor foldable with a learnable one"),
 "C18-m1": ("active pipeline context not restored when an exception escapes the with block", "an exception escaping a context block, then use of the implicit context"),
 "C18-m2": ("ctx.concatenate silently drops a repeated operand", "the same compiled circuit passed twice to concatenate"),
 "C19-m1": ("non-learnable tensors become non-persistent buffers", "a tensor with learnable=False and a non-constant initialiser, save then load into a fresh instance"),
 "C19-m2": ("parameter graphs memoise their output in eval mode", ".eval(), an evaluation, then load_state_dict on the fresh instance"),
 "C12-m1": ("build_circuit no longer falls back to sum_weight_factory for n-ary sum layers", "a region graph with a region partitioned in more than one way (num_repetitions > 1, random binary tree / quad graph) and only sum_weight_factory given"),
 "C12-m2": ("softmax activation skipped when the Parameterization uses Dirichlet initialisation", "Parameterization(activation='softmax', initialization='dirichlet') and a parameter update (or reset to other values) after compilation"),
 "C14-m1": ("polynomial differential reuses the exponents of the first step", "a polynomial parameter differentiated with order >= 2 and degree >= 2"),
 "C14-m2": ("softmax / log-softmax nodes lose their axis when the parameter graph is folded", "fold=True, two or more foldable softmax nodes with dim != -1"),
 "C15-m1": ("sum-layer sampling flattens (arity, units) unit-major", "sampling from a sum layer of arity >= 2 with more than one input unit"),
 "C15-m2": ("CP-T layer sampling combines only the first two inputs", "optimize=True and a Hadamard product of arity >= 3 feeding an arity-1 sum (fused into a CP-T layer), then sampling"),
 "C16-m1": ("structured-decomposability flag keyed by parent region node instead of scope", "a region graph with two region nodes of equal scope that are split differently (num_repetitions > 1)"),
 "C16-m2": ("explicit factories: an input region that is also the root ignores num_classes", "a one-region region graph, sum_factory / prod_factory given, num_classes != num_sum_units"),
 "C17-m1": ("folded per-slice initialisers held in a one-shot iterator", "fold=True, a fold group of >= 2 tensors and a second reset_parameters() after the parameters changed"),
 "C17-m2": ("learnable flag dropped from the fold key of tensor parameters", "fold=True, a learnable and a non-learnable tensor of equal shape in the same fold group"),
 "C20-m1": ("hmm(): emission layer of the last chain variable takes input_factories[-1]", "per-variable input_layer_kwargs (a list) and an ordering whose last element is not num_variables-1"),
 "C20-m2": ("LogicalCircuit.smooth(): literal table keyed with the opposite polarity flag", "enforce_smoothness and a variable added by smoothing that occurs in the formula with one polarity only"),
 # round 2 (sub-agents told to avoid the code sites of round 1)
 "C01-m3": ("consumer-count guard of the layer pattern matcher tests the wrong entry", "optimize=True and a product / sum layer with two consumers, one an arity-1 sum"),
 "C01-m4": ("softmax / log-softmax nodes lose their axis when folded (config without dim)", "fold=True and a softmax parameter node with axis != -1"),
 "C02-m3": ("log(softmax) fusion always normalises over the last axis", "optimize=True and LogParameter over SoftmaxParameter with axis != last"),
 "C02-m4": ("fold key of input layers ignores hyperparameters not implied by shapes", "fold=True and binomial layers with different total_count, or integrate() of a circuit mixing embedding and categorical inputs"),
 "C03-m3": ("product of two probs-parameterised categorical layers stays in probs space (integrates to 1)", "integrate(multiply(c1, c2)) with probs parameterisation in both operands"),
 "C03-m4": ("constant-value layers memoise their value when gradients are disabled", "an integral circuit evaluated under no_grad, a parameter update, a second evaluation"),
 "C04-m3": ("Gaussian product rule drops the second operand's log-partition when both have one", "a product whose two operands are themselves products of Gaussian circuits"),
 "C04-m4": ("outer-product parameter node lays units out transposed", "multiply of two DIFFERENT embedding circuits with more than one unit"),
 "C05-m3": ("derivative of a product layer moves the differentiated input to position 0", "Kronecker layers and a derivative w.r.t. a variable outside the first input"),
 "C05-m4": ("folded parameter graphs: outputs collected in frontier order", "fold=True and polynomial inputs of different degrees, the higher degree first"),
 "C06-m3": ("evidence layer caches its output", "an evidence circuit evaluated, a parameter update, a second evaluation"),
 "C06-m4": ("concatenate takes each operand's sinks as its outputs", "an operand whose output layer also feeds another layer"),
 "C07-m3": ("double-conjugation shortcut compares against the wrong enum", "conjugate applied to the result of differentiate"),
 "C07-m4": ("conjugate re-lists product inputs in scope order", "a Kronecker layer whose inputs are not listed by increasing scope"),
 "C10-m3": ("evidence layer caches its output by parameter version counters", "no_grad evaluation, reset_parameters() of the operand, no_grad evaluation"),
 "C10-m4": ("integrate of a Gaussian layer with explicit log-partition copies instead of referencing it", "GaussianLayer with a learnable log_partition, integrate, then an update of the operand"),
}
DETECT = {}   # filled from check logs


def last_line(path):
    try:
        with open(path) as f:
            lines = [l for l in f.read().splitlines() if l.startswith("[")]
        return lines[-1] if lines else ""
    except OSError:
        return ""


def main():
    rows = []
    dirs = [(d, 0) for d in sorted(glob.glob(os.path.join(SRC, "C*", "m*")))] + \
           [(d, 2) for d in sorted(glob.glob(os.path.join(SRC + "2", "C*", "m*")))]
    for d, shift in dirs:
        pid, m = d.split("/")[-2:]
        mid = f"{pid}-m{int(m[1:]) + shift}"
        vpath = os.path.join(d, "verify.json")
        if not os.path.exists(vpath) or not os.path.exists(os.path.join(d, "patch.diff")):
            continue
        ver = json.load(open(vpath))
        if not (ver["applies"] and ver["demo_rc_clean"] == 0 and ver["demo_rc_patched"] != 0):
            continue
        out = os.path.join(DST, mid)
        os.makedirs(out, exist_ok=True)
        for fn in ("patch.diff", "demo.py", "notes.md"):
            if os.path.exists(os.path.join(d, fn)):
                shutil.copy(os.path.join(d, fn), os.path.join(out, fn))
        det = []
        for log in sorted(glob.glob(os.path.join(d, "check_C*.log"))):
            chk = os.path.basename(log)[6:-4]
            txt = open(log).read()
            nv = len(re.findall(r"^VIOLATION", txt, re.M))
            det.append({"check": chk, "tier": "quick", "violations_reported": nv, "summary": last_line(log)[:200]})
        what, needs = NEEDS.get(mid, ("", ""))
        if "passed" not in str(ver.get("pytest_patched")):
            # not re-run here in time: the sub-agent's own run of the suite, quoted from its notes
            m2 = re.search(r"(\d+ passed[^\n`]*)", open(os.path.join(d, "notes.md")).read()) \
                if os.path.exists(os.path.join(d, "notes.md")) else None
            ver["pytest_patched"] = f"not re-run here; sub-agent reported: {m2.group(1) if m2 else 'n/a'}"
        meta = {
            "id": mid, "breaks_property": pid, "what": what, "needs_to_manifest": needs,
            "verified_in_scratch_worktree": ver,
            "ran": [f"tools/mutant_verify.sh {d} {mid} --tests  (git apply in a scratch worktree of /repo; "
                    "demo.py on clean and patched tree; pinned pytest suite on the patched tree)",
                    f"tools/mutant_check.sh {d} {mid} <checks>  (quick checks against the patched worktree)"],
            "detected_by": [x["check"] for x in det if x["violations_reported"] > 0],
            "checks_run": det,
        }
        json.dump(meta, open(os.path.join(out, "meta.json"), "w"), indent=1)
        rows.append(meta)
    with open(os.path.join(DST, "INDEX.md"), "w") as f:
        f.write("# Seeded changes (generated by tools/collect_seeded.py)\n\n")
        f.write("| id | what | needs | pytest on patched tree | detected by (quick) |\n|---|---|---|---|---|\n")
        for r in rows:
            v = r["verified_in_scratch_worktree"]
            f.write(f"| {r['id']} | {r['what']} | {r['needs_to_manifest']} | {v.get('pytest_patched')} | "
                    f"{', '.join(r['detected_by']) or '**not detected**'} |\n")
    print(len(rows), "seeded changes collected")


if __name__ == "__main__":
    main()
