"""dev aid: compile two hand-built circuits with the mechanism tracer on and validate the traces
(used to show that seeded changes C01-m1 / C02-m1 are rejected by TraceFold.tla / TraceOpt.tla)."""
import os
import sys

os.environ.setdefault("VERIF_MECH_TRACE", "/tmp/mech_demo/t")
os.makedirs(os.path.dirname(os.environ["VERIF_MECH_TRACE"]), exist_ok=True)
from harness import mech_trace, runner  # noqa: E402

print("hook installed:", mech_trace.install())
from cirkit.backend.torch.compiler import TorchCompiler  # noqa: E402
from cirkit.symbolic.circuit import Circuit  # noqa: E402
from cirkit.symbolic.layers import EmbeddingLayer, HadamardLayer, KroneckerLayer, SumLayer  # noqa: E402
from cirkit.utils.scope import Scope  # noqa: E402

e1 = EmbeddingLayer(Scope([0]), 2, num_states=2)
e2 = EmbeddingLayer(Scope([1]), 2, num_states=2)
k = KroneckerLayer(2, arity=2)
s = SumLayer(4, 1, arity=1)
c1 = Circuit([e1, e2, k, s], {k: [e2, e1], s: [k]}, [s])
h = HadamardLayer(2, arity=2)
s1 = SumLayer(2, 2, arity=1)
s2 = SumLayer(2, 2, arity=1)
c2 = Circuit([e1, e2, h, s1, s2], {h: [e1, e2], s1: [h], s2: [h]}, [s1, s2])
for c in (c1, c2):
    for fold, opt in ((True, False), (False, True), (True, True)):
        TorchCompiler(semiring="sum-product", fold=fold, optimize=opt).compile(c)
rep = runner.Report("C02", "quick", 0)
print(mech_trace.validate(rep, os.environ["VERIF_MECH_TRACE"], "demo"))
for v in rep.violation_lines if hasattr(rep, "violation_lines") else []:
    print(v)
print("failures:", len(getattr(rep, "failures", []) or []), rep.machinery_errors[:1])
sys.exit(0)
