#!/bin/bash
# tools/mutant_check.sh <dir with patch.diff> <tag> <Cxx> [<Cyy> ...]
# Runs the quick checks of the given properties against a scratch worktree of /repo with the seeded
# change applied (VERIF_REPO / VERIF_OUT development overrides); prints one line per check.
set -u
D=$1; TAG=$2; shift 2
WT=/tmp/mv/chk_$TAG
mkdir -p /tmp/mv
git -C /repo worktree remove --force $WT 2>/dev/null
git -C /repo worktree add -q --detach $WT HEAD || exit 2
git -C $WT apply $D/patch.diff || { echo "patch does not apply"; git -C /repo worktree remove --force $WT; exit 2; }
for P in "$@"; do
  VERIF_REPO=$WT VERIF_OUT=$WT/_verif_out /verif/check $P --tier quick > $D/check_$P.log 2>&1; RC=$?
  NV=$(grep -c "^VIOLATION" $D/check_$P.log)
  echo "$TAG $P rc=$RC violations=$NV $(tail -1 $D/check_$P.log | cut -c1-160)"
done
git -C /repo worktree remove --force $WT
