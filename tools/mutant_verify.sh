#!/bin/bash
# tools/mutant_verify.sh <dir with patch.diff demo.py> <tag> [--tests]
# Confirms a seeded change in a scratch worktree of /repo (never in /repo itself):
#   patch applies; demo passes on the clean tree and fails on the patched tree; [--tests] pinned suite passes.
# Writes <dir>/verify.json.  The worktree is removed afterwards.
set -u
D=$1; TAG=$2; TESTS=${3:-}
WT=/tmp/mv/$TAG
mkdir -p /tmp/mv
git -C /repo worktree remove --force $WT 2>/dev/null
git -C /repo worktree add -q --detach $WT HEAD || exit 2
export OMP_NUM_THREADS=1 MKL_NUM_THREADS=1
cd $WT
PYTHONPATH=$WT timeout 900 /venv/bin/python $D/demo.py > $D/demo_clean.log 2>&1; RC_CLEAN=$?
if git apply --check $D/patch.diff 2>/dev/null; then APPLIES=true; git apply $D/patch.diff; else APPLIES=false; fi
PYTHONPATH=$WT timeout 900 /venv/bin/python $D/demo.py > $D/demo_patched.log 2>&1; RC_PATCHED=$?
TESTRES="not run"
if [ "$TESTS" = "--tests" ] && [ $APPLIES = true ]; then
  PYTHONPATH=$WT timeout 3600 /venv/bin/python -m pytest -q -p no:cacheprovider --timeout=900 -n 4 tests > $D/pytest_patched.log 2>&1
  TESTRES=$(tail -1 $D/pytest_patched.log | tr -d '"')
fi
HEAD=$(git -C /repo rev-parse --short HEAD)
echo "{\"applies\": $APPLIES, \"demo_rc_clean\": $RC_CLEAN, \"demo_rc_patched\": $RC_PATCHED, \"pytest_patched\": \"$TESTRES\", \"repo_head\": \"$HEAD\"}" > $D/verify.json
cat $D/verify.json
cd /; git -C /repo worktree remove --force $WT
